"""C13 The virtual ECU answers by the ISO 14229-1 default response rules (DESIGN.md section 3, appendix D)."""

from __future__ import annotations

import asyncio
import copy
import itertools
from typing import Any

from vf import iso14229 as iso
from vf.models import vecu

PROPERTY = "C13"
LEVEL = "exploration"
ENGINE = "iso14229-reference"
TECHNIQUE = (
    "runtime reference-model monitor: every reply of the real RandomUDSServer (via UDSServerTransport.handle_request) and its "
    "state after every request are compared online with an executable model of the ISO 14229-1 default response chain, "
    "over generated models, request histories, exhaustive short requests and behaviour-switch subsets, the subsets both given at "
    "construction and written to the public behavior attribute of a live ECU in the middle of a history, while further ECUs that nobody "
    "reconfigures live in the same process and are judged by their own switches; a harness-owned clock is moved between two steps of a "
    "history (also between a seed and its key), by less and by more than the ECU's inactivity limit"
)
LEVEL_TEXT = (
    "Exploration: real virtual ECUs (seeds x randomness parameter sets incl. empty/full lists) are driven in-process with request "
    "histories (model-aware requests, structured valid requests, random bytes) and with every request of length 1 and 2 plus "
    "sampled length 3 for all 256 service ids; each reply and the server state (session, security level) after each request is "
    "judged by a reference rule chain parameterised by the server's own service model. All single-switch-off configurations and "
    "sampled subsets of the nine switches are run with the chain minus those rules. Live reconfiguration: ECUs constructed with the "
    "defaults, one switch off or a random subset are walked through a sequence of other subsets while they run (one switch toggled, "
    "back to the construction-time subset, all on, all changed, random subset; written either switch by switch on server.behavior or "
    "by assigning a new Behavior object), keeping session / security / seed state; after each change the request classes every "
    "single rule decides plus a further history are judged by the chain minus the switches that are off at that moment. "
    "Beside every live-reconfigured ECU (every other defaults one is constructed without any behaviour argument and first changed in place) "
    "further ECUs with their own models and traffic stay alive - one constructed without behaviour argument, one with a Behavior object of "
    "its own, one created only after the first change - and after each change of the other ECU's switches they are probed and judged by "
    "the full chain and their own state. Edge of the model: every history under a subset without rule 3 (construction-time or live) may "
    "change to any session of the model and ends with a session change to a session id the model does not contain (with / without "
    "suppress bit): reply, session state after it and - with rule 1 off too - the 22 F1 86 read-back are judged, then the history stops. "
    "Time between two steps: every history has silences of 3 s (nothing may change) and of 30 / 600 s (inactivity reset: the next request is "
    "judged in the initial state - default session, locked, no seed outstanding) at arbitrary places and, for about every sixth "
    "outstanding seed (every second one if it comes from a non-default session and the default session offers that level too), between the "
    "seed and its right key, at times with a tester present before the key: after the short silence 67 xx and the level set, after the long one "
    "7F 27 24 and still locked. Bystander ECUs end every burst with a seed request and start the next one with its key, the clock having "
    "been moved meanwhile by the other ECU's history. "
    "Held = held on those executions."
)
LEVEL_NOTE = (
    "Trusted: rule chain in vf/models/vecu.py (appendix D). 'Unparsable' is observed with gallia's own dynamic request parser; "
    "which services carry a sub-function is read from the model under test."
)
RULE = (
    "cases = (server seed, randomness parameters, switch subset now in force [and, for live ECUs, how it came into force], request "
    "history prefix, request); histories of 200-2000 requests "
    "from the shared request generator, plus exhaustive sweeps: all 256 one-byte and 65536 two-byte requests and sampled three-byte "
    "requests per swept state; live-reconfiguration histories = 120-300 requests, then 8-16 x (switch change, 256 one-byte + 250-600 "
    "two-byte + rule-5 probes, 120-300 requests), each switch change followed by ~80 requests to each of 2-3 untouched ECUs living beside, "
    "and a last change to a subset without rule 3 followed by a session change to a session id outside the model; every history: silence of 3 / 30 / 600 s "
    "before ~1 % of the requests and between 15-50 % of the seeds and their keys; non-trivial = request answered by rules 1-6 with a rule other than 'unknown everywhere'; distinct = "
    "distinct (model, switches, state, request)"
)
ASSUMPTIONS = [
    "appendix D rule chain; handler-level answers are only required to be a positive reply of that service or a negative reply naming it "
    "(plus exact expectations for session change, session read, tester present, ECU reset, seed/key sequencing)",
    "with default_response_if_sub_function_not_supported switched off, a DiagnosticSessionControl request to a session id that the model does not "
    "contain is judged (reply 50 xx / suppressed, session state xx afterwards: 'disabling one behaviour only removes that rule', 'session state "
    "changes exactly on the positive replies') but ends its history: the statement does not define an ECU inside a session it does not offer - "
    "except the 22 F1 86 read-back, which rule 5 answers with the active session independently of the model (asked only when rule 1 is off too)",
    "the state reached by a history whose tester was silent for longer than the ECU's inactivity limit (clock of the server module moved by 30 / "
    "600 s, never near the limit) is the initial state - default session, locked, no seed outstanding - so a key sent after it meets "
    "requestSequenceError like any key without a seed; a silence of 3 s changes nothing",
    "ECUs in one process are independent: the switch subset of an ECU is what it was constructed with plus what was written to ITS behavior "
    "attribute; the statement's 'with its default behaviours enabled' holds for an ECU nobody reconfigured, whatever was done to another one",
    "'disabling one behaviour' covers a switch written to the public UDSServer.behavior attribute (or a new Behavior object assigned to it) "
    "of an ECU that has already answered requests: the statement names no moment at which the subset has to be chosen, and the state "
    "reached by the history so far stays in force",
]
EXHAUSTIVE = {"quick": False, "thorough": False}
EXHAUSTIVE_NOTE = "exhaustive sub-space per swept state: every request of length 1 and 2 (all 256 service ids x all second bytes)"


def shards(tier: str, seed: int) -> list[dict[str, Any]]:
    out: list[dict[str, Any]] = []
    if tier == "quick":
        for i in range(6):
            out.append({"mode": "sweep", "server_seed": f"q{seed}-{i}", "rp": i % len(vecu.PARAM_SETS), "sessions": 2, "len3": 2000})
        for i in range(4):
            out.append({"mode": "history", "base": f"h{seed}-{i}", "servers": 6, "length": 1500, "off": "none"})
        out.append({"mode": "history", "base": f"s{seed}", "servers": 9, "length": 1200, "off": "single"})
        out.append({"mode": "history", "base": f"m{seed}", "servers": 40, "length": 250, "off": "subsets"})
        for i in range(2):
            out.append({"mode": "reconf", "base": f"r{seed}-{i}", "servers": 9, "segments": 8, "seglen": 120, "two_byte": 250})
        return out
    for i in range(40):
        out.append({"mode": "sweep", "server_seed": f"t{seed}-{i}", "rp": i % len(vecu.PARAM_SETS), "sessions": 6, "len3": 30000})
    for i in range(12):
        out.append({"mode": "history", "base": f"h{seed}-{i}", "servers": 30, "length": 4000, "off": "none"})
    for i in range(4):
        out.append({"mode": "history", "base": f"s{seed}-{i}", "servers": 18, "length": 3000, "off": "single"})
    for i in range(8):
        out.append({"mode": "history", "base": f"m{seed}-{i}", "servers": 64, "length": 600, "off": "subsets"})
    for i in range(8):
        out.append({"mode": "reconf", "base": f"r{seed}-{i}", "servers": 30, "segments": 16, "seglen": 300, "two_byte": 600})
    return out


def required_reach(tier: str) -> dict[str, int]:
    return {
        "rule:1:service-not-supported": 1000, "rule:2:missing-sub-function": 10, "rule:3:sub-function-not-supported": 500,
        "rule:4:incorrect-format": 500, "rule:5:session-change": 50, "rule:5:session-read": 5, "rule:5:tester-present": 5,
        "rule:6:ecu-reset": 5, "rule:6:request-seed": 5, "rule:6:send-key-ok": 1, "suppressed-positive": 10,
        "nrc.7f": 50, "nrc.7e": 10, "state.non-default-session": 100, "state.security-level-set": 1,
        "#off:": 9, "switch-subsets": 10, "state-checks": 1000, "inactivity-pause": 10,
        # live reconfiguration: one ECU object under a sequence of switch subsets (both ways of writing the public attribute, every
        # switch changed in both directions, and requests that the changed switch - not the construction-time setting - decides)
        "reconf.servers": 6, "reconf.how:flip": 10, "reconf.how:assign": 10, "#reconf.changed:": 18, "#reconf.constructed-with:": 3,
        "reconf.one-switch": 10, "reconf.several-switches": 10, "reconf.back-to-construction-setting": 3,
        "reconf.in-non-default-session": 3, "reconf.decided-differently-than-at-construction": 1000,
        "#reconf.effective-switch:": 9, "#reconf.effective:": 15,
        # two more live ECUs beside every reconfigured one (constructed without behaviour argument / with their own Behavior object /
        # created only after the reconfiguration), judged by their own switches after each change of the other ECU's switches
        "bystander.probed-after-reconf": 100, "bystander.kind:omitted": 30, "bystander.kind:own-object": 30, "bystander.kind:omitted-late": 30,
        "bystander.created-after-reconf": 6, "bystander.probed-again": 50, "bystander.beside-omitted-ecu-changed-in-place": 3,
        "bystander.decided-differently-than-reconfigured-ecu": 1000, "bystander.left-in-non-default-session": 5,
        # rule 3 off: session change to a session id at the edge of the model (state judged after the positive / suppressed reply)
        "edge.dsc-to-session-absent-from-model": 10, "edge.dsc-absent:answered": 3, "edge.dsc-absent:suppress-bit": 3,
        "edge.dsc-absent.read-back": 2, "edge.dsc-absent.live": 3, "edge.dsc-to-unoffered-session-of-model": 3,
        "edge.dsc-absent.from-non-default-session": 3,
        # the clock moves between two steps of a history: silence between a seed and its key - longer than the inactivity limit (the
        # ECU is back in its initial state: the right key, sent first thing after the reset [or after a tester present], reaches the
        # seed/key handler because the default session offers the level too, and must meet requestSequenceError; also for a seed
        # from a non-default session) or shorter (the key is still accepted); the same for bystander ECUs whose bursts of traffic
        # are separated by the other ECU's history
        "inactivity-pause.with-seed-outstanding": 50, "inactivity-pause.in-non-default-session": 20, "inactivity-pause.with-security-level-set": 20,
        "inactivity.key-for-forgotten-seed:decided-by-handler": 30, "inactivity.key-for-forgotten-seed:decided-by-handler+tester-present": 5,
        "inactivity.key-for-forgotten-seed:seed-from-non-default-session": 3, "short-pause.key-still-accepted": 30,
        "bystander.key-for-forgotten-seed:decided-by-handler": 10, "bystander.key-after-short-gap-accepted": 8,
    }


def subset_tag(off: frozenset[str] | set[str]) -> str:
    if not off:
        return "defaults"
    return "off:" + "+".join(sorted(s[len("default_response_if_"):] for s in off)) if len(off) == 1 else "off:subset"


RECONF_HOW = ("flip", "assign")


def reconfigure(d: vecu.Driver, how: str, off_before: frozenset[str], off_after: frozenset[str]) -> None:
    """Change the switch subset of the running server through its public `behavior` attribute (the anchor state 'behaviour
    switches'): either set the switches that change one by one on the Behavior object the server holds, or give the server a
    new Behavior object.  What is written comes from the harness's own record of the setting, nothing is read back."""
    if how == "flip":
        for k in vecu.SWITCHES:
            if (k in off_before) != (k in off_after):
                setattr(d.server.behavior, k, k not in off_after)
    elif how == "assign":
        from gallia.services.uds.server import UDSServer

        d.server.behavior = UDSServer.Behavior(**vecu.all_switches(off_after))
    else:
        raise ValueError(how)
    d.switches = vecu.all_switches(off_after)


RULE3 = "default_response_if_sub_function_not_supported"
RULE1 = "default_response_if_service_not_supported"
READ_BACK = b"\x22\xf1\x86"


def make_driver(seed: Any, rp: dict[str, Any], switches: dict[str, bool], construct: str = "vecu") -> vecu.Driver:
    """vecu.Driver whose real server was constructed in the given way: "vecu" = the shared helper's choice (behaviour passed as
    None / Behavior() / spelled out), "omitted" = the behaviour argument left out altogether (RandomUDSServer(seed) or
    RandomUDSServer(seed, parameters): the constructor's own defaults), "own-object" = a Behavior() built for this one server.
    The last two only exist for the documented defaults (every switch on)."""
    d = vecu.Driver(seed, rp, switches)
    if construct == "vecu":
        return d
    from gallia.services.uds.server import RandomUDSServer, UDSServer, UDSServerTransport
    from gallia.transports import TargetURI

    assert all(switches.values()), "constructor defaults = all default behaviours enabled"
    if construct == "omitted":
        srv = RandomUDSServer(seed, RandomUDSServer.RandomnessParameters(**rp)) if rp else RandomUDSServer(seed)
    elif construct == "own-object":
        srv = RandomUDSServer(seed, RandomUDSServer.RandomnessParameters(**rp) if rp else None, UDSServer.Behavior())
    else:
        raise ValueError(construct)
    d.server = srv
    d.transport = UDSServerTransport(srv, TargetURI("tcp-lines://127.0.0.1:1"))
    return d


class Bystander:
    """a second virtual ECU that lives in the same process as a reconfigured one, has its own model and traffic, and is never
    touched by the harness except for sending it requests: it keeps the switches it was constructed with (all on)"""

    def __init__(self, d: vecu.Driver, kind: str, cfg: dict[str, Any]):
        self.d, self.kind, self.cfg = d, kind, cfg
        self.last_active = vecu.CLOCK.t  # harness's own record of when this ECU was last spoken to (10 s inactivity reset)
        self.probes = 0
        self.hist: list[bytes] = []  # everything this ECU was asked so far (its traffic comes in bursts, one per probe)


async def new_bystander(seed: str, rp: int, kind: str) -> Bystander:
    d = make_driver(seed, vecu.PARAM_SETS[rp], vecu.all_switches(), "own-object" if kind == "own-object" else "omitted")
    await d.setup()
    return Bystander(d, kind, {"server_seed": seed, "rp": rp, "off": [], "bystander": kind})


def bystander_probes(ctx: Any, d: vecu.Driver, pending: tuple[int, bytes] | None = None) -> Any:
    """traffic of an untouched ECU: the request classes each single rule decides (as in probes(), smaller), in whatever state the
    ECU's own earlier traffic has left it.  Every burst ends with a seed request (if the active session offers one) and the next
    burst starts with the key for it (`pending`): the two steps of that sequence are separated by however long the other ECU's
    history took meanwhile - the seed is still valid, or the inactivity reset has made the ECU forget it"""
    rng = ctx.rng
    m = d.model
    assert m is not None

    def offered(sid: int) -> list[int]:
        return m.M.get(m.S, {}).get(sid) or []

    if pending is not None:
        if rng.random() < 0.3:
            yield b"\x3e\x00"
        yield bytes([0x27, pending[0] + 1]) + pending[1]
    yield from (b"\x3e\x00", b"\x3e\x80", READ_BACK)
    if offered(0x10):
        yield bytes([0x10, rng.choice(offered(0x10)) | rng.choice([0, 0x80])])
        yield READ_BACK
    for _ in range(24):
        yield bytes([rng.choice(sorted(m.M.get(m.S, {}))) if m.M.get(m.S) and rng.random() < 0.5 else rng.randrange(256)])
    for _ in range(48):
        sid = rng.choice(sorted(m.M.get(m.S, {}))) if m.M.get(m.S) and rng.random() < 0.6 else rng.randrange(256)
        sf = rng.choice(offered(sid)) | rng.choice([0, 0x80]) if offered(sid) and rng.random() < 0.5 else rng.randrange(256)
        yield bytes([sid, sf]) + (rng.randbytes(rng.choice([0, 0, 1, 2])))
    yield from (b"\x3e\x80", b"\x3e\x00")
    odd = [x for x in offered(0x27) if x & 1]
    if odd:
        yield bytes([0x27, rng.choice(odd)])
        if rng.random() < 0.3:
            yield b"\x3e\x00"


async def probe_bystanders(ctx: Any, bystanders: list[Bystander], beside: dict[str, Any], main_sw: dict[str, bool]) -> None:
    """after the switch subset of one ECU was changed: every other live ECU answers by ITS switches and ITS state"""
    for b in list(bystanders):
        bm = b.d.model
        assert bm is not None
        pending = outstanding_seed(bm)
        requests = bystander_probes(ctx, b.d, pending)
        # the tester of this ECU was silent meanwhile; for more than 10 s if the other ECU's history has moved the clock that far
        long = vecu.CLOCK.t - b.last_active > 10
        if b.probes:
            requests = itertools.chain([("GAP", long)], requests)
        if long:
            ctx.reach("bystander.after-inactivity")
            if pending is not None:
                ctx.reach("bystander.after-inactivity.with-seed-outstanding")
        elif pending is not None:
            ctx.reach("bystander.probed-again.with-seed-outstanding")
        ok = await drive(ctx, b.d, requests, f"bystander:{b.kind}", {**b.cfg, "beside": beside}, contrast_sw=main_sw, hist0=b.hist)
        b.last_active = vecu.CLOCK.t
        b.probes += 1
        ctx.reach("bystander.probed-after-reconf")
        ctx.reach(f"bystander.kind:{b.kind}")
        if b.probes > 1:
            ctx.reach("bystander.probed-again")
        if bm.S != 1:
            ctx.reach("bystander.left-in-non-default-session")
        if not ok:
            bystanders.remove(b)


def rule_under(pre: vecu.VecuModel, sw: dict[str, bool], q: bytes, raw: bool, reply: bytes | None) -> str:
    """which rule of the reference chain decides `q` in model state `pre` if the switches were `sw` (pre is not modified)"""
    shadow = copy.copy(pre)
    shadow.sw = sw
    return shadow.check(q, raw, reply).rule


def outstanding_seed(m: vecu.VecuModel) -> tuple[int, bytes] | None:
    """(level, seed bytes) of the seed reply the ECU is waiting for the key of, as far as the harness has seen it"""
    return (m.last_sa[0], m.last_sa[1]) if m.last_sa is not None and m.last_sa[1] is not vecu.UNKNOWN else None


async def drive(ctx: Any, d: vecu.Driver, requests: Any, tag: str, cfg: dict[str, Any], bystanders: list[Bystander] | None = None,
                contrast_sw: dict[str, bool] | None = None, hist0: list[bytes] | None = None) -> bool:
    """feed requests; returns False if the server raised (driver unusable afterwards).
    bystanders: other live ECUs, probed (and judged by their own switches) after every reconfiguration of this one;
    contrast_sw: switch setting of another ECU in the process (reach attribution only);
    hist0: the history this ECU already has from an earlier drive() (continued in place, so that witnesses show it)"""
    m = d.model
    assert m is not None
    last_seed = None
    hist: list[bytes] = [] if hist0 is None else hist0
    # the clock moved between two steps of a seed/key sequence (reach attribution only; the verdicts come from the model):
    # the seed that was outstanding when the tester fell silent, the session it was requested in, how long the silence was
    silence: tuple[tuple[int, bytes], int, bool, str] | None = None
    live = bool(cfg.get("live"))
    sw0 = dict(m.sw)  # the switch setting the ECU was constructed with (model's short names)
    off_now: frozenset[str] = frozenset(cfg.get("off", []))
    last_marker: bytes | None = None
    reconfs = 0
    assigned = False  # a new Behavior object was given to this ECU (it no longer holds the one from its construction)
    in_place: list[str] | None = None  # the subset last written on the Behavior object this ECU got at construction
    outside = False  # the active session is a session id the model does not contain

    def tail() -> list[bytes]:
        t = hist[-30:]
        return t if last_marker is None or last_marker in t else [last_marker] + t

    for q in requests:
        if outside and not (q == READ_BACK and not m.sw["service_not_supported"] and m.sw["session_read"]):
            # the statement does not define the ECU inside a session it does not offer - except for the session read-back, which
            # rule 5 answers with the active session whatever the model is (provided rule 1 does not consult the model first)
            return True
        if isinstance(q, tuple) and q[0] == "RECONF":
            # ("RECONF", how, switches now off): the switch subset of the LIVE ECU is changed through its public `behavior`
            # attribute; session, security level and seed memory stay what the history so far made them
            _, how, target = q
            target = frozenset(target)
            changed = sorted(off_now ^ target)
            try:
                reconfigure(d, how, off_now, target)
            except Exception as e:
                ctx.violation(f"reconfigure/{how}/{type(e).__name__}", "changing the behaviour switches of a running virtual ECU raises",
                              {**cfg, "history": tail(), "how": how, "off_now": sorted(target), "error": repr(e)})
                return False
            off_now = target
            m.sw = {k[len("default_response_if_"):]: v for k, v in vecu.all_switches(off_now).items()}
            last_marker = b"\x00RECONF:" + f"{how}:{','.join(sorted(off_now))}".encode()
            hist.append(last_marker)
            reconfs += 1
            tag = "live:" + subset_tag(off_now)
            cfg = {**cfg, "off_now": sorted(off_now), "reconfigurations": reconfs}
            ctx.reach(f"reconf.how:{how}")
            for k in changed:
                ctx.reach(f"reconf.changed:{k}:{'off' if k in off_now else 'on'}")
            if len(changed) == 1:
                ctx.reach("reconf.one-switch")
            elif len(changed) > 1:
                ctx.reach("reconf.several-switches")
            if m.sw == sw0:
                ctx.reach("reconf.back-to-construction-setting")
            if m.S != 1:
                ctx.reach("reconf.in-non-default-session")
            if m.sec is not None:
                ctx.reach("reconf.with-security-level-set")
            if m.last_sa is not None:
                ctx.reach("reconf.with-seed-outstanding")
            if bystanders is not None:
                assigned = assigned or how == "assign"
                if not assigned:
                    in_place = sorted(off_now)
                beside = {"server_seed": cfg["server_seed"], "rp": cfg["rp"], "off": cfg.get("off"), "constructed": cfg.get("constructed"),
                          "how": how, "off_now": sorted(off_now), "written_in_place": in_place, "reconfigurations": reconfs}
                if reconfs == 1:
                    # an ECU that is only created after another one was reconfigured
                    bystanders.append(await new_bystander(f"{cfg['server_seed']}-late", cfg["rp"], "omitted-late"))
                    ctx.reach("bystander.created-after-reconf")
                if cfg.get("constructed") == "omitted" and not assigned and changed and any(b.kind.startswith("omitted") for b in bystanders):
                    # the changed ECU still holds the Behavior object its constructor gave it, and so does a bystander
                    ctx.reach("bystander.beside-omitted-ecu-changed-in-place")
                await probe_bystanders(ctx, bystanders, beside, dict(m.sw))
            continue
        if isinstance(q, tuple):
            # ("PAUSE", seconds): the tester falls silent - the clock moves between two steps of the history; > 10 s of inactivity
            # reset the ECU state (default session, locked, no seed outstanding), a shorter silence changes nothing.
            # ("GAP", longer than 10 s?): the same for an ECU whose tester was silent while the clock was moved by somebody else's history
            if q[0] == "PAUSE":
                vecu.CLOCK.advance(q[1])
            long = q[1] > 10 if q[0] == "PAUSE" else bool(q[1])
            pending = outstanding_seed(m)
            silence = (pending, m.S, long, "") if pending is not None else None
            if long:
                if m.S != 1:
                    ctx.reach("inactivity-pause.in-non-default-session")
                if m.sec is not None and m.sec is not vecu.UNKNOWN:
                    ctx.reach("inactivity-pause.with-security-level-set")
                if pending is not None:
                    ctx.reach("inactivity-pause.with-seed-outstanding")
                m.reset()
                ctx.reach("inactivity-pause")
            else:
                ctx.reach("short-pause")
                if pending is not None:
                    ctx.reach("short-pause.with-seed-outstanding")
            hist.append(b"\x00PAUSE" if long else b"\x00PAUSE:short")
            continue
        hist.append(q)
        raw = d.is_raw(q)
        if raw and iso.request_wellformed(q):
            ctx.violation(f"parse/wellformed-request-treated-as-unparsable/sid-{q[0]:02x}" + (f".{q[1] & 0x7F:02x}" if q[0] in (0x19, 0x2C, 0x31) and len(q) > 1 else "") + ("/suppress-bit" if iso.suppress_requested(q) else ""),
                          "a request that is well-formed by ISO 14229-1 is not parsed by the ECU, so the 'unparsable request' rule would answer it", {**cfg, "request": q})
        if not raw and not iso.request_wellformed(q):
            if q[0] == 0x3D:
                # WriteMemoryByAddress: gallia does not compare the data record with memorySize (a tester may want to send such a request)
                ctx.reach("parse.lenient-3d")
            else:
                ctx.violation(f"parse/malformed-request-treated-as-parsable/sid-{q[0]:02x}", "a request with an incorrect length / format by ISO 14229-1 is parsed as a typed request, so the "
                              "'incorrect message length or invalid format' rule never answers it", {**cfg, "request": q})
        ctx.reach("parse.compared-with-reference")
        before = (m.S, m.sec)
        try:
            reply, _ = await d.transport.handle_request(q)
        except Exception as e:
            ctx.violation(f"raises/{type(e).__name__}/{tag}", f"virtual ECU raises {type(e).__name__} while answering a request", {**cfg, "history": tail(), "request": q, "error": repr(e)})
            return False
        pre = copy.copy(m) if (live and m.sw != sw0) or (contrast_sw is not None and contrast_sw != m.sw) else None  # model state before this request (for the reach attribution below)
        v = m.check(q, raw, reply)
        ctx.evals()
        if pre is not None and contrast_sw is not None:
            # non-vacuity of the bystander probe: would the reconfigured ECU's switches decide this request by another rule?
            if rule_under(pre, contrast_sw, q, raw, reply) != v.rule:
                ctx.reach("bystander.decided-differently-than-reconfigured-ecu")
        elif pre is not None:
            # non-vacuity of the live reconfiguration: is this request decided by another rule than under the setting the ECU
            # was constructed with, and which of the changed switches makes the difference?  (reach counters only, no verdict)
            ctx.reach("reconf.requests-under-changed-setting")
            if rule_under(pre, sw0, q, raw, reply) != v.rule:
                ctx.reach("reconf.decided-differently-than-at-construction")
                for k, val in pre.sw.items():
                    if sw0[k] != val and rule_under(pre, {**pre.sw, k: sw0[k]}, q, raw, reply) != v.rule:
                        ctx.reach(f"reconf.effective:{k}:{'on' if val else 'off'}")
                        ctx.reach(f"reconf.effective-switch:{k}")
        ctx.reach(f"rule:{v.rule.split('+')[0]}")
        if v.rule.endswith("+suppressed") and v.ok:
            ctx.reach("suppressed-positive")
        if silence is not None:
            (lvl, sd), s_before, long, between = silence
            if v.rule.startswith("5:tester-present"):
                silence = (silence[0], s_before, long, "+tester-present")  # does not touch the seed memory: the key may still follow
            else:
                silence = None
                if not raw and q[0] == 0x27 and len(q) >= 2 and (q[1] & 0x7F) == lvl + 1 and q[2:] == sd:
                    # the right key for the seed from before the silence, as the first request that concerns the seed memory
                    if long:
                        ctx.reach("inactivity.key-for-seed-from-before-the-reset")
                        if v.rule.startswith("6:send-key-sequence"):
                            # the level is offered in the default session too, so the seed/key handler itself has to know
                            # that the sequence was broken off by the reset
                            ctx.reach("inactivity.key-for-forgotten-seed:decided-by-handler")
                            if between:
                                ctx.reach("inactivity.key-for-forgotten-seed:decided-by-handler" + between)
                            if s_before != 1:
                                ctx.reach("inactivity.key-for-forgotten-seed:seed-from-non-default-session")
                            if contrast_sw is not None:
                                ctx.reach("bystander.key-for-forgotten-seed:decided-by-handler")
                    elif v.rule.startswith("6:send-key-ok"):
                        ctx.reach("short-pause.key-still-accepted")
                        if between:
                            ctx.reach("short-pause.key-still-accepted" + between)
                        if contrast_sw is not None:
                            ctx.reach("bystander.key-after-short-gap-accepted")
        if reply is not None and reply[0] == 0x7F and len(reply) == 3:
            if reply[2] == 0x7F:
                ctx.reach("nrc.7f")
            elif reply[2] == 0x7E:
                ctx.reach("nrc.7e")
        nontrivial = not (v.rule.startswith("1:") and reply is not None and reply[-1] == 0x11)
        if nontrivial and len(q) <= 6:
            ctx.case((cfg["server_seed"], cfg["rp"], tag, before, q), nontrivial=True, n=0)
        if not v.ok:
            ctx.violation(f"reply/{v.rule}/{tag}/sid-{q[0]:02x}", f"reply contradicts the default response chain ({v.why})",
                          {**cfg, "history": tail(), "request": q, "reply": reply, "expected": v.expected, "raw": raw, "state_before": list(map(str, before))})
        # state after the request
        st = d.server.state
        ctx.reach("state-checks")
        if st.session != m.S:
            ctx.violation(f"state/session/{v.rule}/{tag}", "server session differs from the session ISO prescribes after this exchange",
                          {**cfg, "history": tail(), "request": q, "reply": reply, "server_session": st.session, "model_session": m.S})
            m.S = st.session
        if m.sec is not vecu.UNKNOWN and st.security_access_level != m.sec:
            ctx.violation(f"state/security-level/{v.rule}/{tag}", "server security level differs from what the exchange implies",
                          {**cfg, "history": tail(), "request": q, "reply": reply, "server_level": st.security_access_level, "model_level": m.sec})
        if m.sec is vecu.UNKNOWN:
            m.sec = st.security_access_level
        if m.S != 1:
            ctx.reach("state.non-default-session")
        if m.sec is not None:
            ctx.reach("state.security-level-set")
        if q[0] == 0x10 and v.rule.startswith("5:session-change") and not m.sw["sub_function_not_supported"] and before[0] in m.M:
            sf = q[1] & 0x7F
            if sf not in m.M:
                ctx.reach("edge.dsc-to-session-absent-from-model")
                ctx.reach("edge.dsc-absent:" + ("suppress-bit" if q[1] & 0x80 else "answered"))
                if before[0] != 1:
                    ctx.reach("edge.dsc-absent.from-non-default-session")
                if live:
                    ctx.reach("edge.dsc-absent.live")
            elif sf not in (m.M[before[0]].get(0x10) or []):
                ctx.reach("edge.dsc-to-unoffered-session-of-model")
        if outside:
            ctx.reach("edge.dsc-absent.read-back")
            return True
        if m.S not in m.M:
            # outside the model (only possible with the sub-function rule switched off): this exchange and the state after it were
            # judged; what follows is at most the read-back (see the loop head)
            outside = True
    return True


def history(ctx: Any, d: vecu.Driver, n: int, restrict_dsc: bool) -> Any:
    rng = ctx.rng
    m = d.model
    assert m is not None
    # (a fresh model has no seed outstanding; a later segment of a live-reconfiguration history carries it on)
    last_seed: tuple[int, bytes] | None = (m.last_sa[0], m.last_sa[1]) if m.last_sa is not None and m.last_sa[1] is not vecu.UNKNOWN else None
    remembered: tuple[int, bytes] | None = None  # the last seed the tester saw, even if the ECU has forgotten it meanwhile
    for _ in range(n):
        if last_seed is not None and rng.random() < (0.5 if m.S != 1 and last_seed[0] + 1 in (m.M.get(1, {}).get(0x27) or []) else 0.15):
            # the clock moves between two steps of a sequence: the tester falls silent between the seed and its key - for a short
            # while (the sequence goes on) or for longer than the inactivity limit (the ECU is back in its initial state and must
            # not know the seed any more, whichever session it was requested in) - and then sends the right key, at times after
            # a tester present (which never concerns the seed memory); more often so where the reset makes the greatest difference:
            # a seed from a non-default session whose level the default session offers as well
            yield ("PAUSE", rng.choice([3.0, 3.0, 30.0, 30.0, 600.0]))
            if rng.random() < 0.3:
                yield rng.choice([b"\x3e\x00", b"\x3e\x80"])
            yield bytes([0x27, last_seed[0] + 1]) + last_seed[1]
            remembered = None
            last_seed = outstanding_seed(m)
            continue
        if last_seed is not None:
            remembered = last_seed
            if rng.random() < 0.2:
                # something in between: tester present keeps the seed valid iff it is answered positively
                yield rng.choice([b"\x3e\x00", b"\x3e\x00", b"\x3e\x80", b"\x3e\x00\x00"])
                last_seed = (m.last_sa[0], m.last_sa[1]) if m.last_sa is not None and m.last_sa[1] is not vecu.UNKNOWN else None
        if last_seed is None and remembered is not None and rng.random() < 0.3:
            # a key for a seed the ECU may no longer remember
            yield bytes([0x27, remembered[0] + 1]) + remembered[1]
            remembered = None
            last_seed = (m.last_sa[0], m.last_sa[1]) if m.last_sa is not None and m.last_sa[1] is not vecu.UNKNOWN else None
            continue
        if rng.random() < 0.01:
            yield ("PAUSE", rng.choice([3.0, 30.0, 600.0]))
            last_seed = None if m.last_sa is None else last_seed
        q = vecu.gen_request(rng, m, last_seed)
        if (restrict_dsc or not m.sw["sub_function_not_supported"]) and q[0] == 0x10 and len(q) >= 2 and (q[1] & 0x7F) not in m.M:
            # without rule 3 a session change to ANY session of the model is in the middle of a history (also one the active session
            # does not offer); one to a session id outside the model ends a history (edge_session)
            continue
        yield q
        last_seed = (m.last_sa[0], m.last_sa[1]) if m.last_sa is not None and m.last_sa[1] is not vecu.UNKNOWN else None


def edge_session(ctx: Any, d: vecu.Driver) -> Any:
    """end of a history under a switch subset without rule 3: "disabling one behaviour only removes that rule", so rule 5 answers a
    session change to ANY session id, and the session state changes on that positive reply - also for an id at the edge of the
    model: a session of the model that the active session does not offer (history goes on), then an id the model does not contain
    at all, with or without suppress bit; drive() judges reply and state, allows the read-back, and ends the history there"""
    rng = ctx.rng
    m = d.model
    assert m is not None
    if m.sw["sub_function_not_supported"] or m.S not in m.M:
        return
    elsewhere = [s for s in (m.M[m.S].get(0x10) or []) if s != 1 and s in m.M]
    if m.S == 1 and elsewhere and rng.random() < 0.5:
        yield bytes([0x10, rng.choice(elsewhere)])  # so that the edge is also met from a non-default session
    unoffered = [s for s in sorted(m.M) if s != m.S and s not in (m.M.get(m.S, {}).get(0x10) or [])]
    if unoffered and rng.random() < 0.8:
        yield bytes([0x10, rng.choice(unoffered) | rng.choice([0, 0, 0x80])])
        yield READ_BACK
    if m.S not in m.M:
        return
    absent = [s for s in range(0x80) if s not in m.M]
    yield bytes([0x10, rng.choice(absent[:4] + absent[-2:] if rng.random() < 0.3 else absent) | rng.choice([0, 0, 0x80])])
    yield READ_BACK


def sweep(ctx: Any, len3: int) -> Any:
    rng = ctx.rng
    for sid in range(256):
        yield bytes([sid])
    for sid in range(256):
        for x in range(256):
            yield bytes([sid, x])
    for _ in range(len3):
        yield bytes([rng.randrange(256), rng.randrange(256), rng.randrange(256)])


def probes(ctx: Any, d: vecu.Driver, two_byte: int) -> Any:
    """after a reconfiguration: the classes of request that each single rule decides - every one-byte request (rules 1, 2, generalReject),
    sampled two-byte requests (rules 1, 3, 4, suppression), and the three exact-answer requests of rule 5 with and without suppress bit -
    in whatever state the history has left the ECU"""
    rng = ctx.rng
    m = d.model
    assert m is not None

    def offered_dsc() -> list[int]:
        return m.M.get(m.S, {}).get(0x10) or []

    fixed = [b"\x3e\x00", b"\x3e\x80", b"\x22\xf1\x86", b"\x3e\x00", b"\x22\xf1\x86\xf1\x86"]
    for q in fixed:
        yield q
    if offered_dsc():
        yield bytes([0x10, rng.choice(offered_dsc()) | rng.choice([0, 0, 0x80])])
    unoffered = [s for s in sorted(m.M) if s != m.S and s not in offered_dsc()]
    if not m.sw["sub_function_not_supported"] and unoffered and rng.random() < 0.5:
        # without rule 3: a session of the model that the active session does not offer
        yield bytes([0x10, rng.choice(unoffered) | rng.choice([0, 0, 0x80])])
    for q in fixed:
        yield q
    one = [bytes([s]) for s in range(256)]
    rng.shuffle(one)
    yield from one
    for _ in range(two_byte):
        q = bytes([rng.choice(sorted(m.M.get(m.S, {}))) if m.M.get(m.S) and rng.random() < 0.5 else rng.randrange(256), rng.randrange(256)])
        if q[0] == 0x10 and not m.sw["sub_function_not_supported"] and (q[1] & 0x7F) not in offered_dsc():
            continue
        yield q


def next_subset(rng: Any, cur: frozenset[str], off0: frozenset[str]) -> frozenset[str]:
    """the next switch subset of a live ECU: one switch toggled, back to the construction-time subset, everything on, everything
    changed, or any other subset"""
    r = rng.random()
    if r < 0.45:
        nxt = cur ^ {rng.choice(vecu.SWITCHES)}
    elif r < 0.55:
        nxt = off0
    elif r < 0.65:
        nxt = frozenset()
    elif r < 0.72:
        nxt = frozenset(vecu.SWITCHES) - cur
    else:
        nxt = frozenset(k for k in vecu.SWITCHES if rng.random() < rng.choice([0.15, 0.5]))
    return frozenset(nxt) if nxt != cur else cur ^ {rng.choice(vecu.SWITCHES)}


def live_history(ctx: Any, d: vecu.Driver, off0: frozenset[str], segments: int, seglen: int, two_byte: int, in_place_first: int = 0) -> Any:
    """one ECU object used under a sequence of switch subsets: history, then (reconfigure, probes, history) x segments;
    the first `in_place_first` changes are written on the Behavior object the ECU got at construction (afterwards either way)"""
    rng = ctx.rng
    cur = off0
    yield from history(ctx, d, seglen, False)
    for n in range(segments):
        if ctx.out_of_time():
            return
        cur = next_subset(rng, cur, off0)
        yield ("RECONF", "flip" if n < in_place_first else rng.choice(RECONF_HOW), cur)
        yield from probes(ctx, d, two_byte)
        yield from history(ctx, d, seglen, False)
    if ctx.out_of_time():
        return
    # last act of every live ECU: rule 3 goes off (rule 5 on; rule 1 and the session read either way), then the edge of the model
    end = (cur | {RULE3}) - {"default_response_if_session_change"}
    if rng.random() < 0.5:
        end = (end | {RULE1}) - {"default_response_if_session_read"}
    if end != cur:
        yield ("RECONF", rng.choice(RECONF_HOW), end)
    yield from edge_session(ctx, d)


async def arun(ctx: Any, params: dict[str, Any]) -> None:
    rng = ctx.rng
    if params["mode"] == "reconf":
        kinds = ["defaults", "single", "subset"]
        for i in range(params["servers"]):
            if ctx.out_of_time():
                break
            kind = kinds[i % 3]
            off0 = frozenset() if kind == "defaults" else frozenset([rng.choice(vecu.SWITCHES)]) if kind == "single" else \
                frozenset(k for k in vecu.SWITCHES if rng.random() < 0.5)
            rp = rng.randrange(len(vecu.PARAM_SETS))
            sseed = f"{params['base']}-{i}"
            # every other ECU with the defaults is constructed without a behaviour argument at all (the constructor's own defaults)
            construct = "omitted" if kind == "defaults" and i % 6 == 0 else "vecu"
            cfg = {"server_seed": sseed, "rp": rp, "off": sorted(off0), "live": True, "constructed": construct}
            d = make_driver(sseed, vecu.PARAM_SETS[rp], vecu.all_switches(off0), construct)
            await d.setup()
            ctx.reach("reconf.servers")
            ctx.reach(f"reconf.constructed-with:{kind}")
            # two more ECUs live beside it for all of its history - one constructed without behaviour argument, one with a Behavior
            # object of its own - with their own models; nobody touches their switches
            bystanders = [await new_bystander(f"{sseed}-by{j}", rng.randrange(len(vecu.PARAM_SETS)), k) for j, k in enumerate(("omitted", "own-object"))]
            await drive(ctx, d, live_history(ctx, d, off0, params["segments"], params["seglen"], params["two_byte"],
                                                in_place_first=(params["segments"] + 1) // 2 if construct == "omitted" else 0), subset_tag(off0), cfg, bystanders)
        return
    if params["mode"] == "sweep":
        cfg = {"server_seed": params["server_seed"], "rp": params["rp"], "off": []}
        d = vecu.Driver(params["server_seed"], vecu.PARAM_SETS[params["rp"]], vecu.all_switches())
        await d.setup()
        assert d.model is not None
        ctx.sample({"model": {f"{s:02x}": {f"{k:02x}": v for k, v in dd.items()} for s, dd in list(d.model.M.items())[:3]}, **cfg})
        sessions = [1] + [s for s in sorted(d.model.M) if s != 1]
        done = 0
        for target in sessions:
            if done >= params["sessions"] or ctx.out_of_time():
                break
            # walk to the target session through offered transitions (BFS on the model)
            path = bfs(d.model.M, 1, target)
            if path is None:
                continue
            ok = await drive(ctx, d, [b"\x10\x01"] + [bytes([0x10, s]) for s in path], "defaults", cfg)
            if not ok or d.model.S != target:
                continue
            ctx.reach("sweep.sessions")
            if not await drive(ctx, d, sweep(ctx, params["len3"]), "defaults", cfg):
                return
            done += 1
        return
    # histories
    offsets: list[frozenset[str]] = []
    if params["off"] == "none":
        offsets = [frozenset()] * params["servers"]
    elif params["off"] == "single":
        offsets = [frozenset([s]) for s in vecu.SWITCHES] * max(1, params["servers"] // 9)
    else:
        allsub = [frozenset(c) for r in range(2, 10) for c in itertools.combinations(vecu.SWITCHES, r)]
        offsets = rng.sample(allsub, params["servers"])
    for i, off in enumerate(offsets):
        if ctx.out_of_time():
            break
        rp = rng.randrange(len(vecu.PARAM_SETS))
        sseed = f"{params['base']}-{i}"
        cfg = {"server_seed": sseed, "rp": rp, "off": sorted(off)}
        d = vecu.Driver(sseed, vecu.PARAM_SETS[rp], vecu.all_switches(off))
        await d.setup()
        tag = "defaults" if not off else ("off:" + "+".join(sorted(s[len("default_response_if_"):] for s in off)) if len(off) == 1 else "off:subset")
        if len(off) == 1:
            ctx.reach("off:" + next(iter(off)))
        elif len(off) > 1:
            ctx.reach("switch-subsets")
        restrict = "default_response_if_sub_function_not_supported" in off
        await drive(ctx, d, itertools.chain(history(ctx, d, params["length"], restrict), edge_session(ctx, d)), tag, cfg)
        if off and not ctx.out_of_time():
            # the short requests under this switch setting (one byte exhaustively, two bytes sampled)
            d2 = vecu.Driver(sseed, vecu.PARAM_SETS[rp], vecu.all_switches(off))
            await d2.setup()
            short = [bytes([s]) for s in range(256)] + [bytes([rng.randrange(256), rng.randrange(256)]) for _ in range(1500)]
            if restrict:
                m2 = d2.model
                assert m2 is not None
                short = [q for q in short if not (q[0] == 0x10 and len(q) == 2)]
            await drive(ctx, d2, itertools.chain(short, edge_session(ctx, d2)), tag, cfg)


def bfs(M: dict[int, dict[int, list[int] | None]], src: int, dst: int) -> list[int] | None:
    if src == dst:
        return []
    prev: dict[int, int] = {src: src}
    queue = [src]
    while queue:
        s = queue.pop(0)
        for t in M.get(s, {}).get(0x10) or []:
            if t in M and t not in prev:
                prev[t] = s
                queue.append(t)
    if dst not in prev:
        return None
    path = [dst]
    while path[-1] != src:
        path.append(prev[path[-1]])
    return list(reversed(path))[1:]


def run(ctx: Any, params: dict[str, Any]) -> None:
    asyncio.run(arun(ctx, params))


def replay(ctx: Any, witness: dict[str, Any]) -> None:
    def ux(x: Any) -> bytes:
        return bytes.fromhex(x[4:]) if isinstance(x, str) and x.startswith("hex:") else x

    def pause_item(h: Any) -> Any:
        if h == b"\x00PAUSE":
            return ("PAUSE", 30.0)
        if h == b"\x00PAUSE:short":
            return ("PAUSE", 3.0)
        return h

    async def go() -> None:
        off = frozenset(witness.get("off", []))
        beside = witness.get("beside")
        if witness.get("bystander") and beside:
            # an untouched ECU beside a reconfigured one: build both, bring the other one from its construction-time subset to the
            # subset it had at the time (one step), then replay the bystander's own requests
            boff = frozenset(beside.get("off") or [])
            main = make_driver(beside["server_seed"], vecu.PARAM_SETS[beside["rp"]], vecu.all_switches(boff), beside.get("constructed") or "vecu")
            await main.setup()
            late = witness["bystander"] == "omitted-late"
            by = None if late else await new_bystander(witness["server_seed"], witness["rp"], witness["bystander"])
            cur = boff
            if beside.get("written_in_place") is not None:
                reconfigure(main, "flip", cur, frozenset(beside["written_in_place"]))
                cur = frozenset(beside["written_in_place"])
            if cur != frozenset(beside["off_now"]):
                reconfigure(main, "assign", cur, frozenset(beside["off_now"]))
            by = by or await new_bystander(witness["server_seed"], witness["rp"], witness["bystander"])
            await drive(ctx, by.d, [pause_item(ux(h)) for h in witness.get("history", []) if not ux(h).startswith(b"\x00RECONF")], "replay", {**by.cfg, "beside": beside})
            return
        d = make_driver(witness["server_seed"], vecu.PARAM_SETS[witness["rp"]], vecu.all_switches(off), witness.get("constructed") or "vecu")
        await d.setup()
        cfg = {"server_seed": witness["server_seed"], "rp": witness["rp"], "off": sorted(off), "live": bool(witness.get("live"))}

        def item(h: Any) -> Any:
            h = pause_item(ux(h))
            if isinstance(h, bytes) and h.startswith(b"\x00RECONF:"):
                how, _, names = h[len(b"\x00RECONF:"):].decode().partition(":")
                return ("RECONF", how, frozenset(n for n in names.split(",") if n))
            return h

        # the stored history is a suffix; replay it from the default state (sufficient when the witness state is reachable from it)
        await drive(ctx, d, [item(h) for h in witness.get("history", [])], "replay", cfg)

    asyncio.run(go())
