"""C19 Line-based transports deliver every message intact, in order, one per read (DESIGN.md section 3)."""

from __future__ import annotations

import asyncio
import random
from binascii import hexlify, unhexlify
from typing import Any

from vf import memstream, vtime

PROPERTY = "C19"
LEVEL = "exploration"
ENGINE = "vtime-memstream"
TECHNIQUE = (
    "runtime sequence-equality oracle on the real TCPLinesTransport / UnixLinesTransport / TCPUDSServerTransport.handle_client "
    "running on in-memory streams under a virtual clock: generated message sequences x enumerated split points / coalescing x "
    "read timeouts at every prefix of a partially delivered line x EOF at and inside message boundaries; the same oracle per object with 2-3 line "
    "transports alive in one event loop (each with its own stream, pace and read timeouts) and with successor objects created after a use ended; "
    "per connection with several tester connections open at once / one after the other on one TCPUDSServerTransport / UnixUDSServerTransport object; "
    "and on real unix/loopback sockets with the server transport started through its run() and the testers opened with connect(); reads are given up "
    "in four ways (timeout= parameter, asyncio.wait_for / asyncio.timeout around read(), cancel() of the reading task) at every prefix of a partial line; "
    "written-then-closed senders on a real AF_UNIX stream socket pair under the virtual clock with a peer that reads late / slowly (flow control engaged); "
    "polling reads (timeout 0 / over at once in all four ways, reading task cancelled after 0..3 loop iterations) while complete lines wait in the stream buffer; "
    "on the same kind of socket pair: senders that go on writing (one or two tasks on one transport) after write() gave up on its timeout on a congested connection, "
    "and the production server loop with testers that pipeline a burst and collect more reply data than the buffers hold only later"
)
LEVEL_TEXT = (
    "Exploration with exhaustive sub-spaces: message sequences (lengths 1..4095, all byte values, bursts up to 200 messages) are "
    "pushed through the production read()/write() code and the production server loop; the byte stream is segmented at every single "
    "split point for short sequences, at seeded multi-splits, byte-by-byte and fully coalesced; read timeouts are placed at every "
    "prefix length of a partially delivered line; EOF is injected at every offset. Oracle: delivered sequence == sent sequence, one "
    "message per read, a timed-out read consumes nothing, EOF never yields a message. No object is only ever alone: groups of 2-3 transports "
    "(tcp-lines and unix-lines mixed) read their own streams concurrently with short, repeated read timeouts, one use ends at a boundary, inside a line "
    "or is given up with an incomplete line pending and a new transport object follows; 2-3 tester chains (connections at the same time and one after "
    "the other) share one server transport object and every connection is compared with its own requests and replies; a sample of cases runs the "
    "server transport through run() on a real unix / loopback socket with concurrent testers opened by connect(), lock-step requests at the boundary "
    "lengths up to 4095 bytes and pipelined bursts. A read is not only ended by its timeout= parameter: in the exhaustive prefix family and in the groups "
    "the caller also gives a suspended read() up from outside (asyncio.wait_for, asyncio.timeout, task.cancel()), and the following reads must deliver every "
    "message. Last use of an object: 1-2 senders write a burst (few maximum-size messages, hundreds of small ones, mixed) over a real socket pair with small or "
    "default kernel buffers to a peer that starts reading 0..40 virtual seconds late and reads in small chunks, then call close(); every message whose write() "
    "returned must reach the peer, in order, before the stream ends. Round 7: (a) polling reads - for every short base sequence, with one line or the whole burst (plus "
    "possibly a partial next line) already buffered, every read is preceded by a read the caller does not wait for (read(timeout=0), timeout 1e-9, outer wait_for / "
    "asyncio.timeout of 0, reading task cancelled after 0..3 loop iterations); half of the generations in the groups poll the same way before every ordinary read; a poll "
    "returns the next message or nothing, and nothing may get lost; (b) congested senders - >= 160 kB of distinct messages (lengths around 1023/1024/2049/4095) written by one "
    "or two tasks on one transport to a peer that does not read for 1.5..40 virtual seconds, write timeouts 0.05..1 s (or none), the tasks go on with their next message after a "
    "write() gave up, then close(); every complete line the peer reads must be one of the written messages, each task's messages in its order, and every message whose write() "
    "returned; (c) replies collected late - 1-2 tester connections on one server object send a whole burst (short requests with maximum-size replies, maximum-size requests, many "
    "small ones) and read the replies 0..400 virtual seconds later in chunks; every request must reach the ECU and every reply come back in order. Held = held on those runs."
)
LEVEL_NOTE = ("Trusted: asyncio.StreamReader (real) fed by the harness, MemWriter stand-in, virtual clock; in the served family the kernel's sockets and the real "
              "clock (a reply counts as missing after 10 real seconds); in the written-then-closed family asyncio's selector transport "
              "and the kernel's AF_UNIX stream sockets (both transport kinds are built on such a pair; delivery inside one process is immediate, so the virtual clock decides).")
RULE = (
    "cases = (transport kind, message sequence, segmentation plan, timeout placement, EOF placement); non-trivial = the stream was split "
    "inside a line, coalesced several lines into one segment, timed out mid-line or ended mid-line; group cases = (kinds, per object: generations of "
    "(messages, segmentation, pace, read timeout / start delay, way of giving a read up, ending)); served cases = (kind, per tester chain: scripts); "
    "written-then-closed cases = per sender (kind, message seed + profile, socket buffer size, peer stall / chunk / gap, write timeout); polling cases = (kind, messages, lines "
    "buffered, bytes of a partial next line, way of polling); congested-writes cases = per sender (kind, message seed, socket buffer size, peer stall / chunk / gap, write timeout "
    "per writing task); replies-collected-late cases = (server kind, responder delays, per connection: request seed + profile, socket buffer size, tester stall / chunk / gap); "
    "distinct = distinct case tuples"
)
ASSUMPTIONS = ["messages have length >= 1 (an empty message is indistinguishable from EOF by construction of the line protocol)",
               "the peer encodes like gallia's own counterpart: lower-case hex digits + LF",
               "'delivered to the peer' is demanded for every message whose write() returned normally before the sender's orderly close(), however late or slowly "
               "the peer reads (the statement sets no bound on the peer's pace); a message whose write() ran into its timeout= may or may not arrive",
               "a read given up by its caller (outer asyncio.wait_for / asyncio.timeout, cancel() of the reading task) counts as 'a read that times out': it returned "
               "no message, so it must not have consumed one",
               "a polling read (timeout 0 or over at once) is free to return the buffered message or nothing; only 'returned nothing but consumed a line' is judged",
               "several tasks may have a write() suspended on one transport at the same time; only each task's own order is demanded of the lines that arrive, not an order "
               "between the tasks",
               "in the server loop 'every reply comes back' is demanded however late the tester collects the replies (the statement sets no bound on the peer's pace)"]
EXHAUSTIVE = {"quick": False, "thorough": False}
EXHAUSTIVE_NOTE = "exhaustive sub-spaces: every single split point, every timeout prefix and every EOF offset of the short base sequences"


def shards(tier: str, seed: int) -> list[dict[str, Any]]:
    if tier == "quick":
        return [{"n": 400, "part": i} for i in range(12)]
    return [{"n": 2500, "part": i} for i in range(16)]


def required_reach(tier: str) -> dict[str, int]:
    return {"client.reads": 2000, "client.writes": 500, "split.inside-line": 500, "coalesced": 100, "timeout.mid-line": 200, "timeout.empty-buffer": 20,
            "eof.boundary": 50, "eof.mid-line": 200, "server.requests": 1000, "server.eof.mid-line": 50, "kind.tcp-lines": 100, "kind.unix-lines": 100,
            "long-message": 5, "burst": 5, "connect-path": 20, "server.eof-with-data": 50,
            # several live objects of one kind in one event loop / successors after a first use ended
            "companions.cases": 500, "companions.timeout-on-partial-line": 1000, "companions.successor": 300, "companions.successor-after-partial-line": 200,
            "companions.abandoned-on-partial-line": 200, "companions.mixed-kinds": 50,
            "server.multi.connections-while-shared": 200, "server.multi.requests-while-shared": 1000, "server.multi.successor": 100,
            "server.multi.kind.tcp-lines": 50, "server.multi.kind.unix-lines": 50,
            # started through run() on real sockets, testers opened with connect()
            "served.cases": 40, "served.kind.tcp-lines": 15, "served.kind.unix-lines": 15, "served.concurrent-connections": 40, "served.long-request": 80,
            "served.successor": 20,
            # a suspended read() given up by the caller from outside instead of by its timeout= parameter
            **{f"giveup.{how}.mid-line": 500 for how in GIVEUPS[1:]}, **{f"giveup.{how}.empty-buffer": 50 for how in GIVEUPS[1:]},
            **{f"companions.giveup.{how}.on-partial-line": 1000 for how in GIVEUPS[1:]},
            # last use of an object: write ... write, close() with a peer that is behind (real socket pair, virtual clock)
            "flush.senders": 300, "flush.kind.tcp-lines": 100, "flush.kind.unix-lines": 100, "flush.buffered-at-close": 100, "flush.write-waited-for-peer": 30,
            "flush.write-timeout": 10, "flush.max-size-messages": 50, "flush.peer-behind.0.1-1s": 10, "flush.peer-behind.1-5s": 20, "flush.peer-behind.>5s": 20,
            "flush.two-senders": 50,
            # round 7: polling reads while a complete line is buffered (read(timeout=0) and friends, reading task cancelled after 0..3 loop iterations)
            "poll.param.line-buffered": 2000, "poll.wait_for.line-buffered": 2000, "poll.timeout-cm.line-buffered": 3000, "poll.cancel.line-buffered": 5000,
            "poll.returned-message": 5000, "poll.returned-nothing": 2000, "companions.poll.line-due": 10000,
            # round 7: further use of a transport whose connection is congested (writes after a write() gave up, two writing tasks), real socket pair
            "congested.senders": 300, "congested.kind.tcp-lines": 100, "congested.kind.unix-lines": 100, "congested.write-after-a-write-gave-up": 3000,
            "congested.two-writing-tasks": 80, "congested.write-while-another-is-suspended": 300,
            # round 7: the server loop with a tester that pipelines a burst and collects the replies late (more reply data than the buffers hold)
            "server.late.cases": 300, "server.late.kind.tcp-lines": 100, "server.late.kind.unix-lines": 100, "server.late.two-connections": 100,
            "server.late.replies-backed-up-when-tester-reads": 150, "server.late.backed-up-for.1-5s": 40, "server.late.backed-up-for.>5s": 60}


# how a suspended read() ends without a message: by its own timeout= parameter, or given up by the caller from outside
GIVEUPS = ("param", "wait_for", "timeout-cm", "cancel")


async def read_giving_up(tr: Any, how: str, after: float, inner: float | None = None) -> bytes:
    """one read() that is given up `after` seconds unless it returned before; a given-up read raises TimeoutError here, whatever the way.
    `inner` is the timeout= parameter handed to read() in the outer ways (None or longer than `after`)"""
    if how == "param":
        return await tr.read(timeout=after)  # type: ignore[no-any-return]
    if how == "wait_for":
        return await asyncio.wait_for(tr.read(timeout=inner), after)  # type: ignore[no-any-return]
    if how == "timeout-cm":
        async with asyncio.timeout(after):
            return await tr.read(timeout=inner)  # type: ignore[no-any-return]
    t = asyncio.ensure_future(tr.read(timeout=inner))
    try:
        done, _ = await asyncio.wait([t], timeout=after)
    except BaseException:
        t.cancel()
        raise
    if not done:
        t.cancel()
    try:
        return await t  # type: ignore[no-any-return]
    except asyncio.CancelledError:
        if not done and t.cancelled():
            raise TimeoutError from None
        raise


# round 7: polling reads - the caller does not wait for a message at all: timeout 0 (or one that is over at once) in each of the four ways; for the
# cancelled reading task the measure is not time but the number of loop iterations the task is given before its owner cancels it
POLLS: tuple[tuple[str, Any, float | None], ...] = (
    ("param", 0, None), ("param", 1e-9, None), ("wait_for", 0, None), ("wait_for", 1e-9, 30.0), ("timeout-cm", 0, None), ("timeout-cm", 0, 30.0),
    ("timeout-cm", 1e-9, None), ("cancel", 0, None), ("cancel", 1, None), ("cancel", 1, 30.0), ("cancel", 2, None), ("cancel", 3, 30.0))


async def poll_read(tr: Any, how: str, arg: Any, inner: float | None = None) -> bytes:
    """one read() the caller does not wait for; returns the message or raises TimeoutError (= no message, whatever the way)"""
    if how != "cancel":
        return await read_giving_up(tr, how, arg, inner)
    t = asyncio.ensure_future(tr.read(timeout=inner))
    try:
        for _ in range(arg):
            await asyncio.sleep(0)
    except BaseException:
        t.cancel()
        raise
    gave_up = not t.done() and t.cancel()
    try:
        return await t  # type: ignore[no-any-return]
    except asyncio.CancelledError:
        if gave_up and t.cancelled():
            raise TimeoutError from None
        raise


async def client_poll_case(kind: str, msgs: list[bytes], upto: int, extra: int, poll: tuple[str, Any, float | None]) -> dict[str, Any]:
    """the first `upto` lines (and `extra` bytes of the next one) are in the stream buffer already (coalesced burst); the caller works them off with a
    polling read before every ordinary read; then the rest arrives and is read in the ordinary way"""
    reader = memstream.new_reader()
    tr = make_transport(kind, reader, memstream.MemWriter())
    stream = encode(msgs)
    lines = [hexlify(m) + b"\n" for m in msgs]
    first = len(b"".join(lines[:upto])) + extra
    reader.feed_data(stream[:first])
    got: list[Any] = []
    out = {"got": got, "polls": 0, "poll_returned": 0, "poll_timed_out": 0}
    broken = False
    while len(got) < upto and not broken:
        out["polls"] += 1
        try:
            got.append(await poll_read(tr, *poll))
            out["poll_returned"] += 1
            continue
        except TimeoutError:
            out["poll_timed_out"] += 1
        except Exception as e:
            got.append(("exc", type(e).__name__))
            broken = True
            break
        try:
            got.append(await tr.read(timeout=1.0))  # a complete line is in the buffer
        except TimeoutError:
            got.append(("timeout", "ordinary read with a complete line due"))
            broken = True
        except Exception as e:
            got.append(("exc", type(e).__name__))
            broken = True
    if stream[first:]:
        reader.feed_data(stream[first:])
    reader.feed_eof()
    for _ in range(len(msgs) + 2):
        try:
            m = await tr.read(timeout=1.0)
        except Exception as e:
            got.append(("exc", type(e).__name__))
            break
        got.append(m)
        if m == b"":
            break
    return out


def gen_messages(rng: random.Random, short: bool) -> list[bytes]:
    if short:
        n = rng.randint(1, 4)
        return [rng.randbytes(rng.randint(1, 4)) for _ in range(n)]
    k = rng.random()
    if k < 0.1:
        return [rng.randbytes(rng.choice([4094, 4095]))] + [rng.randbytes(rng.randint(1, 8)) for _ in range(rng.randint(0, 3))]
    if k < 0.2:
        return [rng.randbytes(rng.randint(1, 6)) for _ in range(rng.randint(50, 200))]
    specials = [b"\x00", b"\x0a", b"\x0d\x0a", b"\xff" * 3, b"\x20\x09", bytes(range(256))]
    return [rng.choice(specials) if rng.random() < 0.2 else rng.randbytes(rng.choice([1, 2, 3, 16, 255, 256, rng.randint(1, 600)])) for _ in range(rng.randint(1, 12))]


async def connect_path_case(kind: str, msgs: list[bytes]) -> dict[str, Any]:
    """through the production connect() (asyncio.open_connection / open_unix_connection replaced by the in-memory hub, which honours
    the stream limit the production code asks for): the peer echoes every line back"""
    from vf import gateway
    from gallia.transports.tcp import TCPLinesTransport
    from gallia.transports.unix import UnixLinesTransport

    def split(buf: bytearray) -> list[bytes]:
        out = []
        while b"\n" in buf:
            i = buf.index(b"\n")
            out.append(bytes(buf[: i + 1]))
            del buf[: i + 1]
        return out

    def factory(n: int) -> Any:
        g = gateway.Gateway(split)
        g.on_client_frame = lambda now, f: g.send(0.001, f, "echo", header_len=0)
        return g

    got: list[Any] = []
    with gateway.GatewayHub(factory):
        if kind == "tcp-lines":
            tr = await TCPLinesTransport.connect("tcp-lines://192.0.2.1:1234", timeout=1.0)
        else:
            tr = await UnixLinesTransport.connect("unix-lines:///nonexistent/vf.sock", timeout=1.0)
        for m in msgs:
            await tr.write(m, timeout=1.0)
            try:
                got.append(await tr.read(timeout=1.0))
            except Exception as e:
                got.append(("exc", type(e).__name__))
        await tr.close()
    return {"got": got}


def encode(msgs: list[bytes]) -> bytes:
    return b"".join(hexlify(m) + b"\n" for m in msgs)


def make_transport(kind: str, reader: asyncio.StreamReader, writer: Any) -> Any:
    from gallia.transports.base import TargetURI
    from gallia.transports.tcp import TCPLinesTransport
    from gallia.transports.unix import UnixLinesTransport

    if kind == "tcp-lines":
        return TCPLinesTransport(TargetURI("tcp-lines://127.0.0.1:1"), reader, writer)
    return UnixLinesTransport(TargetURI("unix-lines:///x.sock"), reader, writer)


async def feed(reader: asyncio.StreamReader, stream: bytes, cuts: list[int], gap: float, eof: bool) -> None:
    pos = 0
    for c in cuts + [len(stream)]:
        if c > pos:
            reader.feed_data(stream[pos:c])
            pos = c
            if gap:
                await asyncio.sleep(gap)
            else:
                await asyncio.sleep(0)
    if eof:
        reader.feed_eof()


async def client_read_case(kind: str, msgs: list[bytes], cuts: list[int], gap: float, eof_at: int | None) -> dict[str, Any]:
    """peer sends msgs (possibly cut short by EOF at byte offset eof_at); the client reads until EOF/exception"""
    reader = memstream.new_reader()
    tr = make_transport(kind, reader, memstream.MemWriter())
    stream = encode(msgs)
    if eof_at is not None:
        stream = stream[:eof_at]
    feeder = asyncio.ensure_future(feed(reader, stream, [c for c in cuts if c < len(stream)], gap, True))
    got: list[Any] = []
    for _ in range(len(msgs) + 3):
        try:
            m = await tr.read(timeout=30.0)
        except Exception as e:
            got.append(("exc", type(e).__name__))
            break
        got.append(m)
        if m == b"":
            break
    await feeder
    return {"got": got, "sent_bytes": len(stream)}


async def client_timeout_case(kind: str, msgs: list[bytes], line_idx: int, prefix: int, how: str = "param", inner: float | None = None) -> dict[str, Any]:
    """deliver everything before line `line_idx`, then only `prefix` bytes of that line; a read times out (by its timeout= parameter, or given up
    by the caller in the way `how`); then the rest arrives"""
    reader = memstream.new_reader()
    tr = make_transport(kind, reader, memstream.MemWriter())
    lines = [hexlify(m) + b"\n" for m in msgs]
    before = b"".join(lines[:line_idx])
    cur = lines[line_idx]
    rest = b"".join(lines[line_idx + 1 :])
    reader.feed_data(before + cur[:prefix]) if before + cur[:prefix] else None
    got: list[Any] = []
    for _ in range(line_idx):
        got.append(await tr.read(timeout=1.0))
    timed_out = False
    try:
        m = await read_giving_up(tr, how, 0.5, inner)
        got.append(m)
    except TimeoutError:
        timed_out = True
    except Exception as e:
        got.append(("exc", type(e).__name__))
    reader.feed_data(cur[prefix:] + rest)
    reader.feed_eof()
    for _ in range(len(msgs) - len([g for g in got if isinstance(g, bytes)]) + 1):
        try:
            m = await tr.read(timeout=1.0)
        except Exception as e:
            got.append(("exc", type(e).__name__))
            break
        got.append(m)
        if m == b"":
            break
    return {"got": got, "timed_out": timed_out}


async def client_write_case(kind: str, msgs: list[bytes]) -> bytes:
    w = memstream.MemWriter()
    tr = make_transport(kind, memstream.new_reader(), w)
    for m in msgs:
        await tr.write(m, timeout=1.0)  # the return value (a byte count) is not part of the statement
    return bytes(w.buffer)


async def server_case(msgs: list[bytes], cuts: list[int], eof_at: int | None, eof_with_data: bool = False) -> dict[str, Any]:
    from gallia.services.uds.server import TCPUDSServerTransport
    from gallia.transports.base import TargetURI

    seen: list[bytes] = []

    class Responder(TCPUDSServerTransport):
        async def handle_request(self, request_pdu: bytes) -> tuple[bytes | None, float]:
            seen.append(bytes(request_pdu))
            if request_pdu[0] & 1:
                return None, 0.0  # e.g. a suppressed positive response
            return bytes([len(seen) & 0xFF]) + request_pdu[::-1], 0.0

    tr = Responder(None, TargetURI("tcp-lines://127.0.0.1:1"))  # type: ignore[arg-type]
    reader = memstream.new_reader()
    writer = memstream.MemWriter()
    stream = encode(msgs)
    if eof_at is not None:
        stream = stream[:eof_at]
    task = asyncio.ensure_future(tr.handle_client(reader, writer))  # type: ignore[arg-type]
    if eof_with_data:
        # the client sends its burst and closes at once: end of stream is already known while complete lines still wait in the buffer
        reader.feed_data(stream)
        reader.feed_eof()
        early = False
    else:
        await feed(reader, stream, [c for c in cuts if c < len(stream)], 0, False)
        for _ in range(10):
            await asyncio.sleep(0)
        early = task.done()
        reader.feed_eof()
    exc = None
    try:
        await asyncio.wait_for(task, 5)
    except Exception as e:
        exc = type(e).__name__
    return {"seen": seen, "out": bytes(writer.buffer), "early": early, "exc": exc}


# ------------------------------------------------------------------------------------------------------------------------------
# several live objects of the same kind in one event loop, and second uses (a successor after the first use ended)


def reply_for(pdu: bytes) -> bytes | None:
    """responder of the multi-connection families: the reply is a function of the request alone (same length, so 4095 stays 4095)"""
    if pdu[0] & 1:
        return None  # e.g. a suppressed positive response
    return bytes([(pdu[0] + 0x40) & 0xFF]) + pdu[:0:-1]


def gen_generation(rng: random.Random, ends: list[str], server: bool = False) -> dict[str, Any]:
    """one use of one object: its own messages, its own segmentation, its own pace and the way it ends"""
    msgs = gen_messages(rng, short=rng.random() < 0.5)
    stream = encode(msgs)
    ncuts = rng.choice([0, 1, 3, 8])
    end = rng.choice(ends)
    g = {"msgs": msgs, "cuts": sorted(rng.sample(range(1, len(stream)), min(len(stream) - 1, ncuts))), "gap": rng.choice([0, 0.004, 0.03]), "end": end,
         "cut_at": rng.randrange(len(stream) + 1) if end != "eof" else None}
    if server:
        g["start"] = rng.choice([0, 0, 0.001, 0.02])
    else:
        g["rt"] = rng.choice([0.01, 0.05, 2.0])
        g["giveup"] = rng.choice(GIVEUPS)
        g["inner"] = None if g["giveup"] == "param" else rng.choice([None, 30.0])
    return g


def gen_stream(g: dict[str, Any]) -> bytes:
    stream = encode(g["msgs"])
    return stream if g["end"] == "eof" else stream[: g["cut_at"]]


async def feed_counting(reader: asyncio.StreamReader, stream: bytes, cuts: list[int], gap: float, eof: bool, fed: list[int]) -> None:
    pos = 0
    for c in cuts + [len(stream)]:
        if c > pos:
            reader.feed_data(stream[pos:c])
            pos = c
            fed[0] = pos
            await asyncio.sleep(gap)
    if eof:
        reader.feed_eof()


async def client_slot(kind: str, gens: list[dict[str, Any]], log: list[dict[str, Any]]) -> None:
    """one tester slot: a transport object per generation (the successor is created after its predecessor ended in EOF at a boundary, in EOF
    inside a line, or was given up and closed while an incomplete line was pending); reads are short and repeated: each one ends by its timeout=
    parameter or is given up by the caller from outside (the generation's way: outer wait_for / asyncio.timeout / cancel() of the reading task)"""
    for g in gens:
        reader = memstream.new_reader()
        tr = make_transport(kind, reader, memstream.MemWriter())
        stream = gen_stream(g)
        fed = [0]
        feeder = asyncio.ensure_future(feed_counting(reader, stream, [c for c in g["cuts"] if c < len(stream)], g["gap"], g["end"] != "abandon", fed))
        got: list[Any] = []
        consumed = timeouts = midline = idle = polls = polls_line = 0
        poll = g.get("poll")
        while len(got) < len(g["msgs"]) + 3 and timeouts < 4000:
            if poll is not None:
                # round 7: a polling read (not waited for) before every ordinary one; it returns a message or nothing
                polls += 1
                line_due = b"\n" in stream[consumed : fed[0]]
                try:
                    m = await poll_read(tr, *poll)
                except TimeoutError:
                    polls_line += line_due
                except Exception as e:
                    got.append(("exc", type(e).__name__))
                    break
                else:
                    polls_line += line_due
                    got.append(m)
                    if m == b"":
                        break
                    consumed += 2 * len(m) + 1
                    continue
            try:
                m = await read_giving_up(tr, g.get("giveup", "param"), g["rt"], g.get("inner"))
            except TimeoutError:
                timeouts += 1
                pending = stream[consumed : fed[0]]
                if pending and b"\n" not in pending:
                    midline += 1
                if feeder.done():
                    idle += 1
                    if idle >= 2:
                        break  # nothing more will arrive (the peer went silent without closing): this use is given up
                continue
            except Exception as e:
                got.append(("exc", type(e).__name__))
                break
            got.append(m)
            if m == b"":
                break
            consumed += 2 * len(m) + 1
        if not feeder.done():
            feeder.cancel()
        await asyncio.gather(feeder, return_exceptions=True)
        close_exc = None
        try:
            await tr.close()
        except Exception as e:
            close_exc = type(e).__name__
        log.append({"got": got, "timeouts": timeouts, "midline_timeouts": midline, "close_exc": close_exc, "pending_at_end": len(stream) - consumed,
                    "polls": polls, "polls_line_due": polls_line})


async def client_group_case(slots: list[dict[str, Any]]) -> list[list[dict[str, Any]]]:
    logs: list[list[dict[str, Any]]] = [[] for _ in slots]
    await asyncio.gather(*(client_slot(s["kind"], s["gens"], logs[i]) for i, s in enumerate(slots)))
    return logs


# ------------------------------------------------------------------------------------------------------------------------------
# last use of an object: write ... write, close() - with a peer that reads late and slowly (real AF_UNIX stream socket pair, virtual clock)

FLUSH_PROFILES = ("max-size", "many-small", "mixed")


def flush_messages(mseed: int, profile: str) -> list[bytes]:
    """the sender's burst, a function of (seed, profile) so that a witness re-creates it"""
    rng = random.Random(f"C19-flush/{mseed}/{profile}")
    if profile == "max-size":
        return [rng.randbytes(rng.choice([4095, 4095, 4094, 4000])) for _ in range(rng.randint(2, 24))]
    if profile == "many-small":
        return [rng.randbytes(rng.randint(1, 6)) for _ in range(rng.randint(50, 400))]
    return gen_messages(rng, short=False)


def gen_flush_slot(rng: random.Random, kind: str) -> dict[str, Any]:
    return {"kind": kind, "mseed": rng.randrange(1 << 30), "profile": rng.choice(FLUSH_PROFILES),
            "sndbuf": rng.choice([None, 2048, 4096, 4096, 16384]),  # SO_SNDBUF / SO_RCVBUF of the pair (None: the kernel's default)
            "stall": rng.choice([0, 0, 0.05, 0.4, 0.9, 1.2, 3.0, 8.0, 40.0]),  # the peer's first read comes this late
            "chunk": rng.choice([64, 512, 4096, 65536]), "gap": rng.choice([0, 0.001, 0.02, 0.15]),  # and it reads that much per step
            "wt": rng.choice([None, None, None, 0.05, 0.3, 1.0])}  # timeout= of the sender's write()


async def flush_slot(sl: dict[str, Any]) -> dict[str, Any]:
    """the sender (production transport on a real stream socket) writes its burst and calls close(); the peer is the harness on the raw other end of
    the pair: it starts late, reads in chunks with pauses until end of stream and keeps every byte with its arrival time"""
    import socket

    msgs = flush_messages(sl["mseed"], sl["profile"])
    total = sum(2 * len(m) + 1 for m in msgs)
    chunk = max(sl["chunk"], total // 150)  # at most ~150 steps of the peer per case
    a, b = socket.socketpair()
    res: dict[str, Any] = {"accepted": 0, "timed_out": None, "write_exc": None, "buffered": 0, "close_exc": None, "end": None, "got": b"", "marks": []}
    w = None
    try:
        a.setblocking(False)
        b.setblocking(False)
        if sl["sndbuf"] is not None:
            a.setsockopt(socket.SOL_SOCKET, socket.SO_SNDBUF, sl["sndbuf"])
            b.setsockopt(socket.SOL_SOCKET, socket.SO_RCVBUF, sl["sndbuf"])
        if sl["kind"] == "tcp-lines":
            r, w = await asyncio.open_connection(sock=a)
        else:
            r, w = await asyncio.open_unix_connection(sock=a)
        tr = make_transport(sl["kind"], r, w)
        loop = asyncio.get_running_loop()
        got = bytearray()
        marks: list[tuple[int, float]] = res["marks"]

        async def peer() -> str:
            await asyncio.sleep(sl["stall"])
            while True:
                try:
                    d = await loop.sock_recv(b, chunk)
                except OSError as e:
                    return type(e).__name__
                if not d:
                    return "eof"
                got.extend(d)
                marks.append((len(got), loop.time()))
                await asyncio.sleep(sl["gap"])

        pt = asyncio.ensure_future(peer())
        t0 = loop.time()
        for i, m in enumerate(msgs):
            try:
                await tr.write(m, timeout=sl["wt"])
            except TimeoutError:
                res["timed_out"] = i  # the line is in the stream's buffer already; the sender stops here
                break
            except Exception as e:
                res["write_exc"] = type(e).__name__
                break
            res["accepted"] += 1
        res["write_time"] = loop.time() - t0
        res["buffered"] = w.transport.get_write_buffer_size()
        res["t_close"] = loop.time()
        try:
            await tr.close()
        except Exception as e:
            res["close_exc"] = type(e).__name__
        res["close_time"] = loop.time() - res["t_close"]
        try:
            res["end"] = await asyncio.wait_for(pt, 7200)
        except TimeoutError:
            res["end"] = "silent"  # two virtual hours after close() returned: neither data nor end of stream
        res["got"] = bytes(got)
        return res
    finally:
        b.close()
        try:
            if w is None:
                a.close()
            elif not w.transport.is_closing():
                w.transport.abort()  # only when the case itself broke off before close()
        except Exception:
            pass


async def flush_group_case(slots: list[dict[str, Any]]) -> list[dict[str, Any]]:
    return list(await asyncio.gather(*(flush_slot(sl) for sl in slots)))


# ------------------------------------------------------------------------------------------------------------------------------
# round 7: an object that goes on being used while the connection is congested (real AF_UNIX stream socket pair, virtual clock)
#  - sender: write() gives up on its timeout= (or is still suspended) and further write()s follow on the same transport, from one or two tasks
#  - server loop: a tester pipelines a burst whose replies exceed what the buffers hold and collects the replies only later


def congesting_messages(mseed: int) -> list[bytes]:
    """more data than any buffer on the way holds (>= 160 kB of lines), lengths around the interesting sizes; all different, so that every line the peer
    receives can be attributed to the write() that produced it"""
    rng = random.Random(f"C19-congesting/{mseed}")
    out: list[bytes] = []
    seen: set[bytes] = set()
    total = 0
    while total < 160_000:
        m = rng.randbytes(rng.choice([4095, 4095, 4094, 3000, 2049, 1500, 1025, 1024, 1023, 300, 8]))
        if m in seen:
            continue
        seen.add(m)
        out.append(m)
        total += 2 * len(m) + 1
    return out


def gen_congested_slot(rng: random.Random, kind: str) -> dict[str, Any]:
    writers = rng.choice([1, 1, 2])
    return {"kind": kind, "mseed": rng.randrange(1 << 30), "sndbuf": rng.choice([2048, 4096, 16384]), "stall": rng.choice([1.5, 3.0, 8.0, 40.0]),
            "chunk": rng.choice([512, 4096, 65536]), "gap": rng.choice([0, 0.001, 0.02]),
            # timeout= of the write()s of each writing task (None: that task waits as long as it takes)
            "wts": [rng.choice([0.05, 0.3, 1.0] if w == 0 and writers == 1 else [None, 0.05, 0.3, 1.0]) for w in range(writers)]}


async def congested_slot(sl: dict[str, Any]) -> dict[str, Any]:
    """the peer (harness, raw other end of the pair) does not read for `stall` seconds; the sender's tasks write their share of the messages one after the
    other on ONE transport, each write() with the task's timeout=, and go on with the next message when a write() gave up; then close()"""
    import socket

    msgs = congesting_messages(sl["mseed"])
    nw = len(sl["wts"])
    total = sum(2 * len(m) + 1 for m in msgs)
    chunk = max(sl["chunk"], total // 150)
    a, b = socket.socketpair()
    res: dict[str, Any] = {"returned": [], "gave_up": [], "raised": [], "write_after_give_up": 0, "two_suspended": 0, "close_exc": None, "end": None, "got": b""}
    w = None
    try:
        a.setblocking(False)
        b.setblocking(False)
        a.setsockopt(socket.SOL_SOCKET, socket.SO_SNDBUF, sl["sndbuf"])
        b.setsockopt(socket.SOL_SOCKET, socket.SO_RCVBUF, sl["sndbuf"])
        if sl["kind"] == "tcp-lines":
            r, w = await asyncio.open_connection(sock=a)
        else:
            r, w = await asyncio.open_unix_connection(sock=a)
        tr = make_transport(sl["kind"], r, w)
        loop = asyncio.get_running_loop()
        got = bytearray()

        async def peer() -> str:
            await asyncio.sleep(sl["stall"])
            while True:
                try:
                    d = await loop.sock_recv(b, chunk)
                except OSError as e:
                    return type(e).__name__
                if not d:
                    return "eof"
                got.extend(d)
                await asyncio.sleep(sl["gap"])

        inflight = [0]

        async def writer_task(wi: int) -> None:
            gave_up_before = False
            for i in range(wi, len(msgs), nw):
                if gave_up_before:
                    res["write_after_give_up"] += 1
                if inflight[0]:
                    res["two_suspended"] += 1
                inflight[0] += 1
                try:
                    await tr.write(msgs[i], timeout=sl["wts"][wi])
                except TimeoutError:
                    res["gave_up"].append(i)
                    gave_up_before = True
                except Exception as e:
                    res["raised"].append((i, type(e).__name__))
                    return
                else:
                    res["returned"].append(i)
                finally:
                    inflight[0] -= 1

        pt = asyncio.ensure_future(peer())
        await asyncio.gather(*(writer_task(wi) for wi in range(nw)))
        try:
            await tr.close()
        except Exception as e:
            res["close_exc"] = type(e).__name__
        try:
            res["end"] = await asyncio.wait_for(pt, 7200)
        except TimeoutError:
            res["end"] = "silent"
        res["got"] = bytes(got)
        return res
    finally:
        b.close()
        try:
            if w is None:
                a.close()
            elif not w.transport.is_closing():
                w.transport.abort()
        except Exception:
            pass


async def congested_group_case(slots: list[dict[str, Any]]) -> list[dict[str, Any]]:
    return list(await asyncio.gather(*(congested_slot(sl) for sl in slots)))


def reply_amplified(pdu: bytes) -> bytes | None:
    """a maximum-size reply to a short request (think of ReadDataByIdentifier); a function of the request alone"""
    if pdu[0] & 1:
        return None
    return bytes([(pdu[0] + 0x40) & 0xFF]) + (pdu[::-1] * (4094 // len(pdu) + 1))[:4094]


LATE_PROFILES = ("amplified", "amplified", "big-requests", "small")


def late_requests(mseed: int, profile: str) -> list[bytes]:
    rng = random.Random(f"C19-late/{mseed}/{profile}")
    if profile == "amplified":
        return [rng.randbytes(rng.randint(1, 12)) for _ in range(rng.randint(40, 90))]
    if profile == "big-requests":
        return [rng.randbytes(rng.choice([4095, 4094, 3000, 2049])) for _ in range(rng.randint(30, 50))]
    return [rng.randbytes(rng.randint(1, 6)) for _ in range(rng.randint(50, 400))]


def gen_late_conn(rng: random.Random) -> dict[str, Any]:
    return {"mseed": rng.randrange(1 << 30), "profile": rng.choice(LATE_PROFILES), "sndbuf": rng.choice([None, 2048, 4096, 16384]),
            "stall": rng.choice([0, 0.3, 1.5, 3.0, 8.0, 40.0, 400.0]),  # the tester looks at the replies this long after it started to send its burst
            "chunk": rng.choice([512, 4096, 65536]), "gap": rng.choice([0, 0.001, 0.02])}


async def late_conn(srv: Any, name: str, sl: dict[str, Any]) -> dict[str, Any]:
    """one tester connection (harness, raw end of the pair) to the production server loop (stream pair on the other end): the whole burst is sent at once
    (in the background, the kernel takes what it takes), the replies are collected from `stall` on, in chunks; then the tester ends its sending direction"""
    import socket

    reqs = late_requests(sl["mseed"], sl["profile"])
    reply = reply_amplified if sl["profile"] == "amplified" else reply_for
    want = b"".join(hexlify(x) + b"\n" for x in map(reply, reqs) if x is not None)
    chunk = max(sl["chunk"], len(want) // 150)
    a, b = socket.socketpair()
    res: dict[str, Any] = {"backed_up": 0, "end": None, "got": b"", "loop_ended": None, "exc": None, "t_done": None}
    w = None
    try:
        a.setblocking(False)
        b.setblocking(False)
        if sl["sndbuf"] is not None:
            a.setsockopt(socket.SOL_SOCKET, socket.SO_SNDBUF, sl["sndbuf"])
            b.setsockopt(socket.SOL_SOCKET, socket.SO_RCVBUF, sl["sndbuf"])
        if srv.kind == "tcp-lines":
            r, w = await asyncio.open_connection(sock=a)
        else:
            r, w = await asyncio.open_unix_connection(sock=a)
        loop = asyncio.get_running_loop()
        task = asyncio.ensure_future(srv.handle_client(r, w))
        task.set_name(name)
        sender = asyncio.ensure_future(loop.sock_sendall(b, encode(reqs)))
        t0 = loop.time()
        await asyncio.sleep(sl["stall"])
        res["backed_up"] = w.transport.get_write_buffer_size()
        res["loop_ended_before_tester_read"] = task.done()
        got = bytearray()
        end = "complete"
        while len(got) < len(want):
            try:
                d = await asyncio.wait_for(loop.sock_recv(b, chunk), 3600)
            except TimeoutError:
                end = "silent"  # one virtual hour without a byte while replies are due
                break
            except OSError as e:
                end = type(e).__name__
                break
            if not d:
                end = "eof"
                break
            got.extend(d)
            await asyncio.sleep(sl["gap"])
        res["t_done"] = loop.time() - t0
        if not sender.done():
            sender.cancel()  # the other side has stopped reading
        await asyncio.gather(sender, return_exceptions=True)
        try:
            b.shutdown(socket.SHUT_WR)
        except OSError:
            pass
        try:
            await asyncio.wait_for(task, 3600)
            res["loop_ended"] = True
        except TimeoutError:
            res["loop_ended"] = False
        except Exception as e:
            res["exc"] = type(e).__name__
        # whatever else was written to this connection
        for _ in range(400):
            try:
                d = await asyncio.wait_for(loop.sock_recv(b, 65536), 5)
            except (TimeoutError, OSError):
                break
            if not d:
                break
            got.extend(d)
        res["end"] = end
        res["got"] = bytes(got)
        res["seen"] = srv.seen.get(name, [])
        return res
    finally:
        b.close()
        try:
            if w is None:
                a.close()
            elif not w.transport.is_closing():
                w.transport.abort()
        except Exception:
            pass


async def late_server_case(kind: str, conns: list[dict[str, Any]], delays: list[Any]) -> list[dict[str, Any]]:
    srv = make_responder(kind, "tcp-lines://127.0.0.1:1" if kind == "tcp-lines" else "unix-lines:///x.sock", delays,
                         lambda pdu: reply_amplified(pdu) if asyncio.current_task().get_name().endswith("/amplified") else reply_for(pdu))  # type: ignore[union-attr]
    srv.kind = kind
    return list(await asyncio.gather(*(late_conn(srv, f"late-{i}/{sl['profile']}", sl) for i, sl in enumerate(conns))))


def make_responder(kind: str, uri: str, delays: list[Any], reply: Any = None) -> Any:
    """the production server transport with a deterministic responder; handle_client is the production loop, the wrapper only counts open
    connections and closes the harness' end afterwards"""
    from gallia.services.uds.server import TCPUDSServerTransport, UnixUDSServerTransport
    from gallia.transports.base import TargetURI

    base = TCPUDSServerTransport if kind == "tcp-lines" else UnixUDSServerTransport

    class Responder(base):  # type: ignore[valid-type,misc]
        def __init__(self) -> None:
            super().__init__(None, TargetURI(uri))  # type: ignore[arg-type]
            self.seen: dict[str, list[bytes]] = {}
            self.open = 0
            self.handled = 0
            self.requests_while_shared = 0
            self.connections_while_shared = 0
            self.connections = 0

        async def handle_request(self, request_pdu: bytes) -> tuple[bytes | None, float]:
            t = asyncio.current_task()
            self.seen.setdefault(t.get_name() if t is not None else "?", []).append(bytes(request_pdu))
            if self.open > 1:
                self.requests_while_shared += 1
            d = delays[self.handled % len(delays)]
            self.handled += 1
            if d == "yield":
                await asyncio.sleep(0)
            elif d:
                await asyncio.sleep(d)
            return (reply or reply_for)(bytes(request_pdu)), 0.0

        async def handle_client(self, reader: Any, writer: Any) -> None:
            self.connections += 1
            if self.open > 0:
                self.connections_while_shared += 1
            self.open += 1
            try:
                await super().handle_client(reader, writer)
            finally:
                self.open -= 1
                try:
                    writer.close()
                except Exception:
                    pass

    return Responder()


async def server_chain(srv: Any, cid: int, gens: list[dict[str, Any]], log: list[dict[str, Any]]) -> None:
    """connections of one tester, one after the other, on the shared server object (other chains run at the same time)"""
    for gi, g in enumerate(gens):
        if g["start"]:
            await asyncio.sleep(g["start"])
        reader = memstream.new_reader()
        writer = memstream.MemWriter()
        name = f"conn-{cid}.{gi}"
        stream = gen_stream(g)
        task = asyncio.ensure_future(srv.handle_client(reader, writer))
        task.set_name(name)
        await feed(reader, stream, [c for c in g["cuts"] if c < len(stream)], g["gap"], False)
        for _ in range(10):
            await asyncio.sleep(0)
        early = task.done()
        reader.feed_eof()
        exc = None
        try:
            await asyncio.wait_for(task, 120)
        except Exception as e:
            exc = type(e).__name__
        log.append({"seen": srv.seen.get(name, []), "out": bytes(writer.buffer), "early": early, "exc": exc})


async def server_group_case(kind: str, chains: list[list[dict[str, Any]]], delays: list[Any]) -> dict[str, Any]:
    srv = make_responder(kind, "tcp-lines://127.0.0.1:1" if kind == "tcp-lines" else "unix-lines:///x.sock", delays)
    logs: list[list[dict[str, Any]]] = [[] for _ in chains]
    await asyncio.gather(*(server_chain(srv, i, gens, logs[i]) for i, gens in enumerate(chains)))
    return {"logs": logs, "requests_while_shared": srv.requests_while_shared, "connections_while_shared": srv.connections_while_shared}


def gen_script(rng: random.Random, long: bool) -> list[tuple[str, Any]]:
    """what one tester does on a served connection: lock-step exchanges (boundary lengths up to the maximum) and one pipelined burst of short
    messages; the last request is always answered, so a connection that died is noticed"""
    ops: list[tuple[str, Any]] = []
    lens = rng.sample([1, 2, 255, 2047, 2048, 2049, 3000, 4094, 4095], 3) if long else [rng.randint(1, 40) for _ in range(3)]
    for n in lens:
        m = rng.randbytes(n)
        ops.append(("one", bytes([m[0] & 0xFE]) + m[1:] if n > 2048 else m))
    ops.append(("burst", [rng.randbytes(rng.randint(1, 12)) for _ in range(rng.randint(2, 25))]))
    rng.shuffle(ops)
    ops.append(("one", bytes([rng.randrange(0, 256, 2)]) + rng.randbytes(rng.randint(0, 5))))
    return ops


READ_WAIT = 10.0  # real seconds; only ever waited for when a reply is really missing


async def served_client(tr: Any, script: list[tuple[str, Any]], log: dict[str, Any]) -> None:
    for op, arg in script:
        batch = [arg] if op == "one" else arg
        try:
            for m in batch:
                await tr.write(m, timeout=READ_WAIT)
        except Exception as e:
            log["bad"] = {"request_len": len(batch[0]), "want": "write accepted", "got": ("exc", type(e).__name__), "op": op}
            return
        for m in batch:
            want = reply_for(m)
            if want is None:
                continue
            try:
                got: Any = await tr.read(timeout=READ_WAIT)
            except Exception as e:
                got = ("exc", type(e).__name__)
            log["exchanges"] += 1
            if len(m) > 2048 and got == want:
                log["long_ok"] += 1
            if got != want:
                log["bad"] = {"request_len": len(m), "request_head": m[:8], "want": want[:16], "got": got[:16] if isinstance(got, bytes) else got, "op": op}
                return


async def served_case(kind: str, uri: str, chains: list[list[list[tuple[str, Any]]]]) -> dict[str, Any]:
    """the virtual ECU's transport is started the way `gallia vecu` starts it (run(): asyncio.start_server / start_unix_server on a real
    socket); the testers are production transports opened with connect(); the first connection of every chain is open at the same time"""
    from gallia.transports.tcp import TCPLinesTransport
    from gallia.transports.unix import UnixLinesTransport

    cls = TCPLinesTransport if kind == "tcp-lines" else UnixLinesTransport
    srv = make_responder(kind, uri, [0, "yield", 0])
    run_task = asyncio.ensure_future(srv.run())
    opened: list[Any] = []

    async def connect() -> Any:
        for _ in range(600):
            if run_task.done():
                return None
            try:
                tr = await cls.connect(uri, timeout=READ_WAIT)
                opened.append(tr)
                return tr
            except (ConnectionRefusedError, FileNotFoundError):
                await asyncio.sleep(0.005)
        return None

    logs: list[list[dict[str, Any]]] = [[{"exchanges": 0, "long_ok": 0, "bad": None} for _ in chain] for chain in chains]
    out: dict[str, Any] = {"logs": logs, "start_error": None, "connect_failed": False}

    async def chain_run(ci: int, first: Any) -> None:
        tr = first
        for gi, script in enumerate(chains[ci]):
            if gi > 0:
                tr = await connect()
                if tr is None:
                    logs[ci][gi]["bad"] = {"request_len": 0, "want": "a connection", "got": "no connection to the running server"}
                    return
            await served_client(tr, script, logs[ci][gi])
            try:
                await tr.close()
            except Exception:
                pass
            if logs[ci][gi]["bad"] is not None:
                return

    try:
        for _ in range(5):
            await asyncio.sleep(0)  # run() binds its socket before the first tester tries to connect
        firsts = [await connect() for _ in chains]
        if any(f is None for f in firsts) or run_task.done():
            if run_task.done() and not run_task.cancelled() and run_task.exception() is not None:
                e = run_task.exception()
                out["start_error"] = {"type": type(e).__name__, "errno": getattr(e, "errno", None), "text": str(e)[:200]}
            else:
                out["connect_failed"] = True
            return out
        await asyncio.gather(*(chain_run(i, f) for i, f in enumerate(firsts)))
        out["connections_while_shared"] = srv.connections_while_shared
        return out
    finally:
        for tr in opened:
            try:
                await asyncio.wait_for(tr.close(), 2)
            except BaseException:
                pass
        for _ in range(400):
            if srv.open == 0:
                break
            await asyncio.sleep(0.005)
        # py3.12.1: Server.wait_closed() waits for open connections; they are all closed by now, and the wait is bounded anyway
        run_task.cancel()
        try:
            await asyncio.wait_for(asyncio.gather(run_task, return_exceptions=True), 2)
        except BaseException:
            pass


def real_run(coro: Any, cpu_limit: float, wall_limit: float) -> Any:
    """like vtime.run, but on an ordinary event loop (real sockets need the real selector and the real clock); same CPU guard"""
    import signal
    import threading

    loop = asyncio.new_event_loop()
    armed = threading.current_thread() is threading.main_thread()
    old_handler = None
    fired = [0]
    if armed:
        def on_timer(signum: int, frame: Any) -> None:
            fired[0] += 1
            raise vtime.Spinning()

        old_handler = signal.signal(signal.SIGVTALRM, on_timer)
        signal.setitimer(signal.ITIMER_VIRTUAL, cpu_limit, 0.5)  # repeating, see vtime.run
    try:
        asyncio.set_event_loop(loop)
        res = loop.run_until_complete(asyncio.wait_for(coro, wall_limit))
        if fired[0]:
            raise vtime.Spinning()
        return res
    finally:
        if armed:
            signal.setitimer(signal.ITIMER_VIRTUAL, 0)
            signal.signal(signal.SIGVTALRM, old_handler if old_handler is not None else signal.SIG_DFL)
        try:
            for t in asyncio.all_tasks(loop):
                t.cancel()
            try:
                loop.run_until_complete(asyncio.sleep(0))
                loop.run_until_complete(loop.shutdown_asyncgens())
            except BaseException:
                pass
        finally:
            asyncio.set_event_loop(None)
            loop.close()


def free_port() -> int:
    import socket

    with socket.socket() as s:
        s.bind(("127.0.0.1", 0))
        return int(s.getsockname()[1])


def small(spec: Any) -> bool:
    """can the witness carry this spec completely (runner.jsonable shortens byte strings over 256 bytes)?"""
    if isinstance(spec, (bytes, bytearray)):
        return len(spec) <= 256
    if isinstance(spec, dict):
        return all(small(v) for v in spec.values())
    if isinstance(spec, (list, tuple)):
        return len(spec) <= 40 and all(small(v) for v in spec)
    return True


def summarise(gens: list[dict[str, Any]]) -> Any:
    return [{**g, "msgs": f"{len(g['msgs'])} messages, lengths {[len(m) for m in g['msgs']][:12]}"} for g in gens]


class StopShard(Exception):
    """raised by Mon.run after repeated Spinning verdicts (the violations are recorded; more cases would only burn the budget)"""


class Mon:
    def __init__(self, ctx: Any):
        self.ctx = ctx
        self.served_off: set[str] = set()
        self.served_n = 0
        self.cpu = 45.0  # CPU seconds one operation may burn without reaching a suspension point
        self.spins = 0

    def run(self, coro: Any, w: dict[str, Any], what: str) -> Any:
        try:
            return vtime.run(coro, cpu_limit=self.cpu)
        except vtime.Deadlock:
            self.ctx.violation(f"{what}/blocks-forever", "operation can never complete (nothing scheduled, nothing readable)", w)
            return None
        except vtime.Spinning:
            self.ctx.violation(f"{what}/spins-without-yielding", "the operation burns CPU without ever reaching a suspension point (no timeout of the caller can end it)", w)
            # every such verdict costs its CPU limit: once the verdict exists the limit drops, and after a dozen the shard stops adding cases
            # (a shard that sits in spinning operations until the runner's watchdog would end as 'inconclusive' instead of 'violated')
            self.spins += 1
            self.cpu = 6.0
            if self.spins >= 12:
                raise StopShard from None
            return None

    def check_read(self, kind: str, msgs: list[bytes], cuts: list[int], gap: float, eof_at: int | None) -> None:
        ctx = self.ctx
        stream = encode(msgs)
        w = {"kind": kind, "messages": msgs if len(msgs) <= 8 and all(len(m) <= 40 for m in msgs) else f"{len(msgs)} messages, lengths {[len(m) for m in msgs][:12]}",
             "cuts": cuts[:20], "gap": gap, "eof_at": eof_at}
        inside = any(stream[c - 1 : c] != b"\n" for c in cuts if 0 < c < len(stream))
        coalesced = any(stream[a:b].count(b"\n") > 1 for a, b in zip([0] + cuts, cuts + [len(stream)]))
        midline_eof = eof_at is not None and 0 < eof_at < len(stream) and stream[eof_at - 1 : eof_at] != b"\n"
        ctx.case((kind, tuple(msgs) if len(msgs) < 6 else hash(tuple(msgs)), tuple(cuts), gap, eof_at), nontrivial=inside or coalesced or midline_eof)
        ctx.reach(f"kind.{kind}")
        if inside:
            ctx.reach("split.inside-line")
        if coalesced:
            ctx.reach("coalesced")
        out = self.run(client_read_case(kind, msgs, cuts, gap, eof_at), w, f"client/{kind}/read")
        if out is None:
            return
        got = out["got"]
        ctx.reach("client.reads", len(got))
        # which messages were sent completely?
        if eof_at is None:
            complete = list(msgs)
        else:
            complete = [unhexlify(l) for l in stream[:eof_at].split(b"\n")[:-1]]
        delivered = [g for g in got if isinstance(g, bytes) and g != b""]
        w2 = {**w, "got": got[:12], "complete_messages": len(complete)}
        if delivered[: len(complete)] != complete:
            how = "reordered-or-altered" if len(delivered) >= len(complete) else "lost"
            ctx.violation(f"client/read/{how}", "messages delivered by read() differ from the complete messages the peer sent", w2)
            return
        extra = delivered[len(complete) :]
        if extra:
            ctx.violation("client/read/eof-mid-line-yields-message" if midline_eof else "client/read/fabricated-message",
                          "read() returned a message the peer never sent completely (partial line at end of stream)", w2)
            return
        if midline_eof:
            ctx.reach("eof.mid-line")
        else:
            ctx.reach("eof.boundary")
            tail = got[len(complete) :]
            if tail[:1] != [b""]:
                ctx.violation("client/read/eof-not-signalled", "end of stream at a message boundary is not reported as the explicit EOF result", w2)

    def check_timeout(self, kind: str, msgs: list[bytes], line_idx: int, prefix: int, how: str = "param", inner: float | None = None) -> None:
        ctx = self.ctx
        w = {"kind": kind, "messages": msgs, "line": line_idx, "prefix": prefix}
        where = "mid-line" if prefix > 0 else "empty-buffer"
        if how == "param":
            ctx.case((kind, "timeout", tuple(msgs), line_idx, prefix))
            ctx.reach(f"timeout.{where}")
        else:
            w.update({"how": how, "inner": inner})
            ctx.case((kind, "given-up", how, inner, tuple(msgs), line_idx, prefix))
            ctx.reach(f"giveup.{how}.{where}")
        out = self.run(client_timeout_case(kind, msgs, line_idx, prefix, how, inner), w, f"client/{kind}/read-timeout" if how == "param" else f"client/{kind}/read-given-up")
        if out is None:
            return
        got = out["got"]
        if not out["timed_out"]:
            ctx.violation("client/read/no-timeout-on-partial-line", "a read returned although only part of a line had arrived", {**w, "got": got[:8]})
            return
        delivered = [g for g in got if isinstance(g, bytes) and g != b""]
        if delivered != msgs:
            if how == "param":
                ctx.violation("client/read/timeout-consumes-data", "after a read timed out mid-line the next reads do not deliver the complete messages", {**w, "got": got[:8]})
            else:
                ctx.violation(f"client/read/given-up-read-consumes-data/{how}/{where}", "after the caller gave a suspended read() up from outside (outer timeout / cancelled reading "
                              "task) the next reads do not deliver the complete messages", {**w, "got": got[:8]})

    def check_poll(self, kind: str, msgs: list[bytes], upto: int, extra: int, poll: tuple[str, Any, float | None]) -> None:
        """polling reads on a coalesced burst: each one returns the next message or nothing; nothing may get lost"""
        ctx = self.ctx
        poll = (poll[0], poll[1], poll[2])
        w = {"kind": kind, "messages": msgs, "poll_case": {"lines_buffered": upto, "extra_bytes": extra, "poll": list(poll)}}
        ctx.case((kind, "poll", tuple(msgs), upto, extra, poll))
        out = self.run(client_poll_case(kind, msgs, upto, extra, poll), w, f"client/{kind}/polling-read")
        if out is None:
            return
        ctx.reach(f"poll.{poll[0]}.line-buffered", out["polls"])
        ctx.reach("poll.returned-message", out["poll_returned"])
        ctx.reach("poll.returned-nothing", out["poll_timed_out"])
        ctx.reach("client.reads", len(out["got"]) + out["poll_timed_out"])
        got = out["got"]
        delivered = [g for g in got if isinstance(g, bytes) and g != b""]
        if delivered != msgs or any(not isinstance(g, bytes) for g in got):
            how = "lost" if len(delivered) < len(msgs) else "reordered-or-altered"
            ctx.violation(f"client/read/polling-read-consumes-data/{poll[0]}/{how}", "a complete line was in the stream buffer and the caller polled (read with timeout 0 / a timeout over at "
                          "once / reading task cancelled after a few loop iterations): a read that returned no message consumed one - the following reads do not deliver every message",
                          {**w, "got": got[:8], "polls_returned_message": out["poll_returned"], "polls_returned_nothing": out["poll_timed_out"]})
        elif got[len(msgs) :][:1] != [b""]:
            ctx.violation("client/read/eof-not-signalled", "end of stream at a message boundary is not reported as the explicit EOF result", {**w, "got": got[:8]})

    def check_connect_path(self, kind: str, msgs: list[bytes]) -> None:
        ctx = self.ctx
        ctx.case((kind, "connect-path", hash(tuple(msgs))), nontrivial=True)
        ctx.reach("connect-path")
        w = {"kind": kind, "lengths": [len(m) for m in msgs][:12]}
        out = self.run(connect_path_case(kind, msgs), w, f"client/{kind}/connect-path")
        if out is None:
            return
        if out["got"] != msgs:
            bad = next((i for i, (a, b) in enumerate(zip(out["got"], msgs)) if a != b), 0)
            ln = len(msgs[bad])
            ctx.violation(f"client/connect-path/{kind}/message-not-delivered/{'len>2048' if ln > 2048 else 'len<=2048'}",
                          "a message echoed by the peer over a connection opened with connect() is not delivered intact", {**w, "first_bad": bad, "got": out["got"][bad] if bad < len(out["got"]) else None})

    def check_write(self, kind: str, msgs: list[bytes]) -> None:
        ctx = self.ctx
        ctx.case((kind, "write", hash(tuple(msgs))), nontrivial=True)
        out = self.run(client_write_case(kind, msgs), {"kind": kind}, f"client/{kind}/write")
        if out is None:
            return
        ctx.reach("client.writes", len(msgs))
        lines = out.split(b"\n")
        try:
            dec = [unhexlify(l) for l in lines[:-1]]
        except Exception:
            dec = None
        if lines[-1] != b"" or dec != msgs:
            ctx.violation("client/write/encoding", "bytes put on the stream do not decode to the written message sequence", {"kind": kind, "messages": msgs[:6], "stream": out[:200]})

    def check_server(self, msgs: list[bytes], cuts: list[int], eof_at: int | None, eof_with_data: bool = False) -> None:
        ctx = self.ctx
        stream = encode(msgs)
        midline_eof = eof_at is not None and 0 < eof_at < len(stream) and stream[eof_at - 1 : eof_at] != b"\n"
        w = {"messages": msgs if len(msgs) <= 8 and all(len(m) <= 40 for m in msgs) else f"{len(msgs)} messages", "cuts": cuts[:20], "eof_at": eof_at}
        ctx.case(("server", tuple(msgs) if len(msgs) < 6 else hash(tuple(msgs)), tuple(cuts), eof_at), nontrivial=True)
        if eof_with_data:
            ctx.reach("server.eof-with-data")
            w["eof_with_data"] = True
        out = self.run(server_case(msgs, cuts, eof_at, eof_with_data), w, "server-loop")
        if out is None:
            return
        complete = list(msgs) if eof_at is None else [unhexlify(l) for l in stream[:eof_at].split(b"\n")[:-1]]
        ctx.reach("server.requests", len(out["seen"]))
        if midline_eof:
            ctx.reach("server.eof.mid-line")
        w2 = {**w, "seen": out["seen"][:10], "complete": len(complete), "exc": out["exc"]}
        if out["early"]:
            ctx.violation("server-loop/ends-before-eof", "the server loop ended although the client had not closed", w2)
            return
        if out["seen"][: len(complete)] != complete:
            ctx.violation("server-loop/requests-differ", "requests handed to the ECU differ from the messages the client sent", w2)
            return
        if len(out["seen"]) > len(complete):
            ctx.violation("server-loop/eof-mid-line-yields-request", "a partial line at end of stream was handled as a request", w2)
            return
        want = b"".join(hexlify(bytes([(i + 1) & 0xFF]) + m[::-1]) + b"\n" for i, m in enumerate(complete) if not m[0] & 1)
        if out["out"] != want:
            ctx.violation("server-loop/replies-differ", "reply lines differ from one line per answered request, in order", {**w2, "out": out["out"][:120], "want": want[:120]})


    # -- several live objects / second uses ---------------------------------------------------------------------------------------
    def check_companions(self, slots: list[dict[str, Any]]) -> None:
        """every transport object is judged on its own: what it delivered vs. what its own peer sent on its own stream"""
        ctx = self.ctx
        full = small(slots)
        w = {"family": "client-group", "slots": slots if full else [{"kind": s["kind"], "gens": summarise(s["gens"])} for s in slots]}
        ctx.case(("client-group", h(slots)), nontrivial=True)
        ctx.reach("companions.cases")
        if len({s["kind"] for s in slots}) > 1:
            ctx.reach("companions.mixed-kinds")
        logs = self.run(client_group_case(slots), w, "client/companions")
        if logs is None:
            return
        for si, s in enumerate(slots):
            for gi, g in enumerate(s["gens"]):
                if gi >= len(logs[si]):
                    break
                out = logs[si][gi]
                role = "first-use" if gi == 0 else "successor"
                got = out["got"]
                stream = gen_stream(g)
                ctx.reach("client.reads", len(got) + out["timeouts"])
                ctx.reach("companions.timeout-on-partial-line", out["midline_timeouts"])
                way = g.get("giveup", "param")
                if way != "param":
                    ctx.reach(f"companions.giveup.{way}.on-partial-line", out["midline_timeouts"])
                    role += f"/read-given-up-by-{way}"
                if g.get("poll") is not None:
                    ctx.reach("companions.poll.reads", out["polls"])
                    ctx.reach("companions.poll.line-due", out["polls_line_due"])
                    role += f"/polling-reads-by-{g['poll'][0]}"
                if gi > 0:
                    ctx.reach("companions.successor")
                    prev = s["gens"][gi - 1]
                    if prev["end"] != "eof" and not gen_stream(prev).endswith(b"\n") and gen_stream(prev):
                        ctx.reach("companions.successor-after-partial-line")
                complete = list(g["msgs"]) if g["end"] == "eof" else [unhexlify(l) for l in stream.split(b"\n")[:-1]]
                midline = bool(stream) and not stream.endswith(b"\n")
                delivered = [x for x in got if isinstance(x, bytes) and x != b""]
                w2 = {**w, "slot": si, "generation": gi, "kind": s["kind"], "got": got[:12], "complete_messages": len(complete), "read_timeouts": out["timeouts"]}
                if delivered[: len(complete)] != complete:
                    how = "reordered-or-altered" if len(delivered) >= len(complete) else "lost"
                    ctx.violation(f"client/companions/{how}/{role}", "with other line transports alive in the same event loop (or after an earlier one was closed), "
                                  "the messages delivered by one transport's read() differ from the complete messages its own peer sent", w2)
                    continue
                if delivered[len(complete) :]:
                    ctx.violation(f"client/companions/fabricated-message/{role}", "read() returned a message that the peer of this transport never sent completely", w2)
                    continue
                if g["end"] == "abandon":
                    if midline:
                        ctx.reach("companions.abandoned-on-partial-line")
                    continue
                if midline:
                    ctx.reach("eof.mid-line")
                else:
                    ctx.reach("eof.boundary")
                    if got[len(complete) :][:1] != [b""]:
                        ctx.violation(f"client/companions/eof-not-signalled/{role}", "end of stream at a message boundary is not reported as the explicit EOF result", w2)

    def check_flush(self, slots: list[dict[str, Any]]) -> None:
        """written, then closed: every message whose write() returned before the sender's close() reaches the peer intact and in order, however far the
        peer is behind; each sender is judged against its own peer"""
        ctx = self.ctx
        w = {"family": "written-then-closed", "senders": slots}
        ctx.case(("written-then-closed", h(slots)), nontrivial=True)
        res = self.run(flush_group_case(slots), w, "client/written-then-closed")
        if res is None:
            return
        if len(slots) > 1:
            ctx.reach("flush.two-senders")
        for si, (sl, out) in enumerate(zip(slots, res)):
            msgs = flush_messages(sl["mseed"], sl["profile"])
            accepted = msgs[: out["accepted"]]
            want = encode(accepted)
            ctx.reach("flush.senders")
            ctx.reach(f"flush.kind.{sl['kind']}")
            ctx.reach("client.writes", out["accepted"])
            if out["buffered"]:
                ctx.reach("flush.buffered-at-close")
            if out["write_time"] > 0.01:
                ctx.reach("flush.write-waited-for-peer")
            if out["timed_out"] is not None:
                ctx.reach("flush.write-timeout")
            if any(len(m) >= 4094 for m in accepted):
                ctx.reach("flush.max-size-messages")
            ctx.reach(f"flush.end.{out['end']}")
            w2 = {**w, "sender": si, "messages": f"{len(msgs)} messages, lengths {[len(m) for m in msgs][:12]}", "write_returned_for": out["accepted"],
                  "write_timed_out_at": out["timed_out"], "write_buffer_at_close": out["buffered"], "close_took": out["close_time"], "close_exc": out["close_exc"],
                  "peer_saw": out["end"], "peer_got_bytes": len(out["got"]), "peer_got_complete_lines": out["got"].count(b"\n")}
            if out["write_exc"] is not None:
                ctx.violation("client/written-then-closed/write-raises", "write() raised although the peer had its end open and was (slowly) reading",
                              {**w2, "write_exc": out["write_exc"]})
                continue
            lines = out["got"].split(b"\n")[:-1]
            try:
                dec: list[Any] = [unhexlify(l) for l in lines]
            except Exception:
                dec = [bytes(l) for l in lines]
            state = "write-buffer-not-empty-at-close" if out["buffered"] else "write-buffer-empty-at-close"
            if dec[: len(accepted)] != accepted:
                how = "reordered-or-altered" if len(dec) >= len(accepted) else "lost"
                ctx.violation(f"client/written-then-closed/{how}/{state}", "messages for which write() had returned before close() did not reach the (late, slowly reading) "
                              "peer as exactly that sequence before the stream ended", w2)
                continue
            extra = dec[len(accepted) :]
            allowed = [msgs[out["timed_out"]]] if out["timed_out"] is not None else []
            if extra and extra != allowed:
                ctx.violation(f"client/written-then-closed/fabricated-message/{state}", "the peer received a complete line that no write() of the sender produced", w2)
                continue
            behind = next((t for n, t in out["marks"] if n >= len(want)), out["t_close"]) - out["t_close"]
            ctx.reach("flush.peer-behind." + ("<0.1s" if behind < 0.1 else "0.1-1s" if behind < 1 else "1-5s" if behind < 5 else ">5s"))

    def check_congested(self, slots: list[dict[str, Any]]) -> None:
        """further writes on a congested connection (after a write() gave up on its timeout, or while another task's write() is suspended): whatever the peer
        reads are complete messages that were passed to write(), each task's messages in the order of its write()s, and every message whose write() returned"""
        ctx = self.ctx
        w = {"family": "congested-writes", "senders": slots}
        ctx.case(("congested-writes", h(slots)), nontrivial=True)
        res = self.run(congested_group_case(slots), w, "client/congested-writes")
        if res is None:
            return
        for si, (sl, out) in enumerate(zip(slots, res)):
            msgs = congesting_messages(sl["mseed"])
            nw = len(sl["wts"])
            ctx.reach("congested.senders")
            ctx.reach(f"congested.kind.{sl['kind']}")
            ctx.reach("client.writes", len(out["returned"]))
            ctx.reach("congested.write-gave-up", len(out["gave_up"]))
            ctx.reach("congested.write-after-a-write-gave-up", out["write_after_give_up"])
            if nw > 1:
                ctx.reach("congested.two-writing-tasks")
                ctx.reach("congested.write-while-another-is-suspended", out["two_suspended"])
            ctx.reach(f"congested.end.{out['end']}")
            lines = out["got"].split(b"\n")[:-1]
            index = {bytes(hexlify(m)): i for i, m in enumerate(msgs)}
            arrived = [index.get(bytes(l)) for l in lines]
            role = f"{'one-writing-task' if nw == 1 else 'two-writing-tasks'}/{'after-write-timeout' if out['gave_up'] else 'no-write-timeout'}"
            w2 = {**w, "sender": si, "messages": f"{len(msgs)} messages, lengths {[len(m) for m in msgs][:12]}", "writes_returned": len(out["returned"]),
                  "writes_gave_up": out["gave_up"][:20], "close_exc": out["close_exc"], "peer_saw": out["end"], "peer_got_complete_lines": len(lines)}
            if out["raised"]:
                ctx.violation(f"client/congested-writes/write-raises/{role}", "write() raised although the peer had its end open and was going to read", {**w2, "raised": out["raised"][:5]})
                continue
            if None in arrived:
                k = arrived.index(None)
                ctx.violation(f"client/congested-writes/line-is-no-written-message/{role}", "the peer received a complete line that is none of the messages passed to write() "
                              "(pieces of different lines glued together)", {**w2, "line_no": k, "line_len": len(lines[k]), "line_head": bytes(lines[k][:24]), "line_tail": bytes(lines[k][-24:])})
                continue
            if len(set(arrived)) != len(arrived):
                ctx.violation(f"client/congested-writes/duplicated/{role}", "a message arrived more than once", w2)
                continue
            if any([i for i in arrived if i % nw == wi] != sorted(i for i in arrived if i % nw == wi) for wi in range(nw)):
                ctx.violation(f"client/congested-writes/reordered/{role}", "messages written one after the other by one task arrived in another order", {**w2, "arrived": arrived[:40]})
                continue
            missing = sorted(set(out["returned"]) - set(arrived))  # type: ignore[arg-type]
            if missing:
                ctx.violation(f"client/congested-writes/lost/{role}", "messages whose write() returned before close() did not reach the peer before the stream ended",
                              {**w2, "missing": missing[:20]})

    def check_late_server(self, kind: str, conns: list[dict[str, Any]], delays: list[Any]) -> None:
        """pipelined bursts whose replies are collected late: every request reaches the ECU and every reply comes back, in order, on its own connection"""
        ctx = self.ctx
        w = {"family": "replies-collected-late", "server_kind": kind, "delays": delays, "connections": conns}
        ctx.case(("replies-collected-late", kind, h(conns), tuple(delays)), nontrivial=True)
        res = self.run(late_server_case(kind, conns, delays), w, "server-loop/replies-collected-late")
        if res is None:
            return
        ctx.reach("server.late.cases")
        ctx.reach(f"server.late.kind.{kind}")
        if len(conns) > 1:
            ctx.reach("server.late.two-connections")
        for ci, (sl, out) in enumerate(zip(conns, res)):
            reqs = late_requests(sl["mseed"], sl["profile"])
            reply = reply_amplified if sl["profile"] == "amplified" else reply_for
            want = b"".join(hexlify(x) + b"\n" for x in map(reply, reqs) if x is not None)
            ctx.reach("server.late.connections")
            ctx.reach("server.requests", len(out["seen"]))
            if out["backed_up"] >= 65536:
                ctx.reach("server.late.replies-backed-up-when-tester-reads")
                ctx.reach("server.late.backed-up-for." + ("<=1s" if sl["stall"] <= 1 else "1-5s" if sl["stall"] <= 5 else ">5s"))
            state = "replies-backed-up" if out["backed_up"] >= 65536 else "replies-not-backed-up"
            w2 = {**w, "connection": ci, "requests": f"{len(reqs)} requests, lengths {[len(m) for m in reqs][:12]}", "handed_to_ecu": len(out["seen"]),
                  "reply_bytes_due": len(want), "reply_bytes_got": len(out["got"]), "write_buffer_when_tester_starts_reading": out["backed_up"], "tester_saw": out["end"],
                  "loop_ended_before_tester_read": out.get("loop_ended_before_tester_read"), "loop_ended_after_eof": out["loop_ended"], "exc": out["exc"]}
            if out["seen"] != reqs:
                how = "missing" if out["seen"] == reqs[: len(out["seen"])] else "differ"
                ctx.violation(f"server-loop/replies-collected-late/requests-{how}/{state}", "a tester sent its burst and collected the replies later: the requests handed to the ECU "
                              "are not the requests of the burst", w2)
                continue
            if out["got"] != want:
                ctx.violation(f"server-loop/replies-collected-late/replies-differ/{state}", "a tester sent its burst and collected the replies later: the reply lines it got are not one "
                              "line per answered request, in order", w2)
                continue
            if out["loop_ended"] is False:
                ctx.violation(f"server-loop/replies-collected-late/does-not-end-at-eof/{state}", "the server loop did not end after the tester had ended its stream", w2)

    def check_server_group(self, kind: str, chains: list[list[dict[str, Any]]], delays: list[Any]) -> None:
        """one server transport object, several tester connections at the same time and one after the other; every connection is judged on
        its own: requests read from it, reply lines written to it"""
        ctx = self.ctx
        full = small(chains)
        w = {"family": "server-group", "server_kind": kind, "delays": delays, "chains": chains if full else [summarise(c) for c in chains]}
        ctx.case(("server-group", kind, h(chains), tuple(delays)), nontrivial=True)
        ctx.reach(f"server.multi.kind.{kind}")
        res = self.run(server_group_case(kind, chains, delays), w, "server-loop/multi")
        if res is None:
            return
        ctx.reach("server.multi.requests-while-shared", res["requests_while_shared"])
        ctx.reach("server.multi.connections-while-shared", res["connections_while_shared"])
        expected: list[tuple[int, int, list[bytes], bytes]] = []
        for ci, gens in enumerate(chains):
            for gi, g in enumerate(gens):
                stream = gen_stream(g)
                complete = list(g["msgs"]) if g["end"] == "eof" else [unhexlify(l) for l in stream.split(b"\n")[:-1]]
                expected.append((ci, gi, complete, b"".join(hexlify(r) + b"\n" for r in map(reply_for, complete) if r is not None)))
        for ci, gi, complete, want in expected:
            if gi >= len(res["logs"][ci]):
                continue
            out = res["logs"][ci][gi]
            role = "first-connection" if gi == 0 else "later-connection"
            if gi > 0:
                ctx.reach("server.multi.successor")
            ctx.reach("server.requests", len(out["seen"]))
            stream = gen_stream(chains[ci][gi])
            if stream and not stream.endswith(b"\n"):
                ctx.reach("server.eof.mid-line")
            w2 = {**w, "chain": ci, "generation": gi, "seen": out["seen"][:10], "complete": len(complete), "exc": out["exc"]}
            if out["early"]:
                ctx.violation(f"server-loop/multi/ends-before-eof/{role}", "the server loop of a connection ended although this client had not closed", w2)
                continue
            if out["seen"][: len(complete)] != complete:
                ctx.violation(f"server-loop/multi/requests-differ/{role}", "requests handed to the ECU for a connection differ from the messages this client sent", w2)
                continue
            if len(out["seen"]) > len(complete):
                ctx.violation(f"server-loop/multi/eof-mid-line-yields-request/{role}", "a partial line at end of stream was handled as a request", w2)
                continue
            if out["out"] != want:
                mine = set(want.split(b"\n"))
                others = set().union(*(set(x[3].split(b"\n")) for x in expected if (x[0], x[1]) != (ci, gi))) - mine
                foreign = any(l in others for l in out["out"].split(b"\n"))
                ctx.violation(f"server-loop/multi/replies-differ/{'foreign-reply' if foreign else 'missing-or-altered'}/{role}",
                              "with several tester connections on one server transport, the reply lines written to a connection differ from one line per answered "
                              "request of that connection, in order", {**w2, "out": out["out"][:120], "want": want[:120]})

    def check_served(self, kind: str, chains: list[list[list[tuple[str, Any]]]]) -> None:
        """real start-up path of the virtual ECU's transport + production connect() of the testers, real sockets, real clock"""
        ctx = self.ctx
        if kind in self.served_off:
            return
        w = {"family": "served", "kind": kind, "chains": [[[(op, len(a) if op == "one" else f"{len(a)} short messages") for op, a in script] for script in chain] for chain in chains]}
        res = None
        for attempt in range(4):
            self.served_n += 1
            uri = f"tcp-lines://127.0.0.1:{free_port()}" if kind == "tcp-lines" else f"unix-lines://{ctx.mkscratch()}/s{self.served_n}.sock"
            try:
                res = real_run(served_case(kind, uri, chains), cpu_limit=45.0, wall_limit=150.0)
            except vtime.Spinning:
                self.served_off.add(kind)
                ctx.violation(f"served/{kind}/spins-without-yielding", "the exchange burns CPU without ever reaching a suspension point", w)
                return
            except TimeoutError:
                self.served_off.add(kind)
                ctx.violation(f"served/{kind}/does-not-end", "the exchange over the served socket did not end (no read timeout of the testers ended it)", w)
                return
            se = res["start_error"]
            if se is not None and se["errno"] in (98, 48):  # EADDRINUSE: the probed port was taken by somebody else in the meantime
                res = None
                continue
            break
        if res is None or res["connect_failed"]:
            ctx.reach("served.not-started")  # no verdict about the code
            return
        ctx.case(("served", kind, h(chains)), nontrivial=True)
        if res["start_error"] is not None:
            self.served_off.add(kind)
            ctx.violation(f"served/{kind}/server-does-not-start", "the virtual ECU's line transport cannot be started on a free address", {**w, "error": res["start_error"]})
            return
        ctx.reach("served.cases")
        ctx.reach(f"served.kind.{kind}")
        ctx.reach("served.concurrent-connections", res.get("connections_while_shared", 0))
        for ci, chain in enumerate(chains):
            for gi in range(len(chain)):
                out = res["logs"][ci][gi]
                role = "first-connection" if gi == 0 else "later-connection"
                ctx.reach("served.exchanges", out["exchanges"])
                ctx.reach("served.long-request", out["long_ok"])
                if gi > 0 and out["exchanges"]:
                    ctx.reach("served.successor")
                if out["bad"] is not None:
                    self.served_off.add(kind)  # a missing reply costs real seconds: one witness per shard is enough
                    ln = out["bad"]["request_len"]
                    ctx.violation(f"served/{kind}/reply-wrong-or-missing/{'len>2048' if ln > 2048 else 'len<=2048'}/{role}",
                                  "over a virtual ECU transport started through its run() and testers opened with connect(), a tester did not get exactly the reply to its "
                                  "own request as the next message", {**w, "chain": ci, "generation": gi, **out["bad"]})
                    break


def h(spec: Any) -> str:
    import hashlib

    return hashlib.blake2b(repr(spec).encode(), digest_size=8).hexdigest()


def run_groups(mon: Mon, rng: random.Random, i: int, kind: str, rng7: random.Random) -> None:
    """round 5 dimension: no object is alone in its event loop, and objects get successors; round 6: reads given up from outside, written-then-closed"""
    kinds = ("tcp-lines", "unix-lines")
    slots = []
    for s in range(rng.choice([2, 2, 3])):
        gens = [gen_generation(rng, ["eof", "eof-mid", "abandon", "abandon"])]
        if rng.random() < 0.6:
            gens.append(gen_generation(rng, ["eof", "eof", "eof-mid"]))
        slots.append({"kind": kind if s == 0 or rng.random() < 0.5 else rng.choice(kinds), "gens": gens})
    for sl in slots:
        for g in sl["gens"]:
            if rng7.random() < 0.5:
                g["poll"] = list(rng7.choice(POLLS))  # round 7: this use polls before every ordinary read
    mon.check_companions(slots)
    if i % 2 == 0:
        chains = []
        for s in range(rng.choice([2, 2, 3])):
            chains.append([gen_generation(rng, ["eof", "eof", "eof-mid"], server=True) for _ in range(rng.choice([1, 1, 2]))])
        mon.check_server_group(kinds[(i // 2) % 2], chains, rng.choice([[0], ["yield"], [0.002], [0, "yield", 0.002, 0, 0.0005]]))
    if i % 8 == 3:
        # round 6: the last use of an object (write ... write, close) with a peer that is behind
        mon.check_flush([gen_flush_slot(rng, kinds[(i // 8) % 2])] + ([gen_flush_slot(rng, rng.choice(kinds))] if rng.random() < 0.4 else []))
    if i % 8 == 5:
        # round 7: the object goes on being used while its connection is congested
        mon.check_congested([gen_congested_slot(rng7, kinds[(i // 8) % 2])] + ([gen_congested_slot(rng7, rng7.choice(kinds))] if rng7.random() < 0.3 else []))
    if i % 8 == 7:
        mon.check_late_server(kinds[(i // 8) % 2], [gen_late_conn(rng7) for _ in range(rng7.choice([1, 2]))], rng7.choice([[0], ["yield"], [0, "yield", 0.002]]))
    if i % 16 == 0:
        chains3 = [[gen_script(rng, True)] + ([gen_script(rng, rng.random() < 0.5)] if rng.random() < 0.7 else []), [gen_script(rng, True)]]
        if rng.random() < 0.3:
            chains3.append([gen_script(rng, False)])
        mon.check_served(kinds[(i // 16) % 2], chains3)


def run(ctx: Any, params: dict[str, Any]) -> None:
    import gallia.command  # noqa: F401

    vtime.quiet_logging()
    rng = ctx.rng
    rng5 = random.Random(f"C19-groups/{ctx.seed}/{ctx.shard_index}")  # own stream: the cases of the older families stay what they were
    rng7 = random.Random(f"C19-round7/{ctx.seed}/{ctx.shard_index}")  # round 7 dimensions, again on their own stream
    mon = Mon(ctx)
    try:
        run_cases(ctx, params, mon, rng, rng5, rng7)
    except StopShard:
        ctx.reach("stopped-after-repeated-spinning-verdicts")


def run_cases(ctx: Any, params: dict[str, Any], mon: Any, rng: Any, rng5: Any, rng7: Any) -> None:
    for i in range(params["n"]):
        kind = ("tcp-lines", "unix-lines")[i % 2]
        # short base sequence: exhaustive single splits, timeouts at every prefix, EOF at every offset
        msgs = gen_messages(rng, short=True)
        stream = encode(msgs)
        if i % 6 == 0:
            for c in range(1, len(stream)):
                mon.check_read(kind, msgs, [c], rng.choice([0, 0.01]), None)
            for e in range(0, len(stream) + 1):
                mon.check_read(kind, msgs, [], 0, e)
                if i % 12 == 0:
                    mon.check_server(msgs, [rng.randrange(1, len(stream))], e)
            lines = [hexlify(m) + b"\n" for m in msgs]
            for li, ln in enumerate(lines):
                for p in range(0, len(ln)):
                    mon.check_timeout(kind, msgs, li, p)
                    mon.check_timeout(kind, msgs, li, p, GIVEUPS[1 + (i // 6 + li + p) % 3], (None, 30.0)[(i // 6 + p // 3) % 2])
            # round 7: polling reads while complete lines wait in the buffer (every way x one line / the whole burst buffered x with / without a partial next line)
            for pi, poll in enumerate(POLLS):
                for upto in sorted({1, len(msgs)}):
                    mon.check_poll(kind, msgs, upto, 0, poll)
                    if upto < len(msgs):
                        mon.check_poll(kind, msgs, upto, 1 + (i // 6 + pi) % (len(lines[upto]) - 1), poll)
        # longer sequences: multi-splits, byte-by-byte, coalesced
        msgs = gen_messages(rng, short=False)
        stream = encode(msgs)
        if any(len(m) >= 4094 for m in msgs):
            ctx.reach("long-message")
        if len(msgs) >= 50:
            ctx.reach("burst")
        plans: list[list[int]] = [[], sorted(rng.sample(range(1, len(stream)), min(len(stream) - 1, rng.randint(1, 12))))]
        if len(stream) < 400:
            plans.append(list(range(1, len(stream))))
        for cuts in plans:
            mon.check_read(kind, msgs, cuts, rng.choice([0, 0, 0.001]), rng.choice([None, None, rng.randrange(len(stream) + 1)]))
        mon.check_write(kind, msgs)
        if i % 4 < 2:
            mon.check_connect_path(kind, [rng.randbytes(n) for n in rng.sample([1, 2, 255, 2047, 2048, 2049, 3000, 4094, 4095], 4)] + msgs[:3])
        mon.check_server(msgs, plans[1], rng.choice([None, None, rng.randrange(len(stream) + 1)]))
        mon.check_server(msgs, [], rng.choice([None, None, rng.randrange(len(stream) + 1)]), eof_with_data=True)
        run_groups(mon, rng5, i, kind, rng7)
        if i % 20 == 0:
            ctx.sample({"kind": kind, "messages": [m for m in msgs[:4]], "cuts": plans[1][:8]})
        if ctx.out_of_time():
            break


def replay(ctx: Any, witness: dict[str, Any]) -> None:
    import gallia.command  # noqa: F401

    vtime.quiet_logging()

    def ux(x: Any) -> bytes:
        return bytes.fromhex(x[4:]) if isinstance(x, str) and x.startswith("hex:") else x

    mon = Mon(ctx)
    fam = witness.get("family")
    if fam is not None:
        def dec(x: Any) -> Any:
            if isinstance(x, str) and x.startswith("hex:"):
                if ".." in x:
                    raise ValueError("shortened")
                return bytes.fromhex(x[4:])
            if isinstance(x, list):
                return [dec(v) for v in x]
            if isinstance(x, dict):
                return {k: dec(v) for k, v in x.items()}
            return x

        try:
            if fam == "client-group" and all(isinstance(g["msgs"], list) for sl in witness["slots"] for g in sl["gens"]):
                mon.check_companions(dec(witness["slots"]))
                return
            if fam == "written-then-closed":
                mon.check_flush(witness["senders"])
                return
            if fam == "congested-writes":
                mon.check_congested(witness["senders"])
                return
            if fam == "replies-collected-late":
                mon.check_late_server(witness["server_kind"], witness["connections"], witness["delays"])
                return
            if fam == "server-group" and all(isinstance(g["msgs"], list) for ch in witness["chains"] for g in ch):
                mon.check_server_group(witness["server_kind"], dec(witness["chains"]), witness["delays"])
                return
        except ValueError:
            pass
        print("witness carries only a summary of the case (long messages / real-socket family); re-run the tier with the recorded seed")
        return
    msgs = witness.get("messages")
    if not isinstance(msgs, list):
        print("witness carries only a summary of a long sequence; re-run the tier with the recorded seed")
        return
    msgs = [ux(m) for m in msgs]
    if "poll_case" in witness:
        pc = witness["poll_case"]
        mon.check_poll(witness["kind"], msgs, pc["lines_buffered"], pc["extra_bytes"], tuple(pc["poll"]))
    elif "line" in witness:
        mon.check_timeout(witness["kind"], msgs, witness["line"], witness["prefix"], witness.get("how", "param"), witness.get("inner"))
    elif "kind" in witness:
        mon.check_read(witness["kind"], msgs, witness.get("cuts", []), witness.get("gap", 0), witness.get("eof_at"))
    else:
        mon.check_server(msgs, witness.get("cuts", []), witness.get("eof_at"), witness.get("eof_with_data", False))
