"""C19 Line-based transports deliver every message intact, in order, one per read (DESIGN.md section 3)."""

from __future__ import annotations

import asyncio
import random
from binascii import hexlify, unhexlify
from typing import Any

from vf import memstream, vtime

PROPERTY = "C19"
LEVEL = "exploration"
ENGINE = "vtime-memstream"
TECHNIQUE = (
    "runtime sequence-equality oracle on the real TCPLinesTransport / UnixLinesTransport / TCPUDSServerTransport.handle_client "
    "running on in-memory streams under a virtual clock: generated message sequences x enumerated split points / coalescing x "
    "read timeouts at every prefix of a partially delivered line x EOF at and inside message boundaries"
)
LEVEL_TEXT = (
    "Exploration with exhaustive sub-spaces: message sequences (lengths 1..4095, all byte values, bursts up to 200 messages) are "
    "pushed through the production read()/write() code and the production server loop; the byte stream is segmented at every single "
    "split point for short sequences, at seeded multi-splits, byte-by-byte and fully coalesced; read timeouts are placed at every "
    "prefix length of a partially delivered line; EOF is injected at every offset. Oracle: delivered sequence == sent sequence, one "
    "message per read, a timed-out read consumes nothing, EOF never yields a message. Held = held on those runs."
)
LEVEL_NOTE = "Trusted: asyncio.StreamReader (real) fed by the harness, MemWriter stand-in, virtual clock. A real-socket sample is part of C08."
RULE = (
    "cases = (transport kind, message sequence, segmentation plan, timeout placement, EOF placement); non-trivial = the stream was split "
    "inside a line, coalesced several lines into one segment, timed out mid-line or ended mid-line; distinct = distinct case tuples"
)
ASSUMPTIONS = ["messages have length >= 1 (an empty message is indistinguishable from EOF by construction of the line protocol)",
               "the peer encodes like gallia's own counterpart: lower-case hex digits + LF"]
EXHAUSTIVE = {"quick": False, "thorough": False}
EXHAUSTIVE_NOTE = "exhaustive sub-spaces: every single split point, every timeout prefix and every EOF offset of the short base sequences"


def shards(tier: str, seed: int) -> list[dict[str, Any]]:
    if tier == "quick":
        return [{"n": 400, "part": i} for i in range(12)]
    return [{"n": 2500, "part": i} for i in range(16)]


def required_reach(tier: str) -> dict[str, int]:
    return {"client.reads": 2000, "client.writes": 500, "split.inside-line": 500, "coalesced": 100, "timeout.mid-line": 200, "timeout.empty-buffer": 20,
            "eof.boundary": 50, "eof.mid-line": 200, "server.requests": 1000, "server.eof.mid-line": 50, "kind.tcp-lines": 100, "kind.unix-lines": 100,
            "long-message": 5, "burst": 5, "connect-path": 20, "server.eof-with-data": 50}


def gen_messages(rng: random.Random, short: bool) -> list[bytes]:
    if short:
        n = rng.randint(1, 4)
        return [rng.randbytes(rng.randint(1, 4)) for _ in range(n)]
    k = rng.random()
    if k < 0.1:
        return [rng.randbytes(rng.choice([4094, 4095]))] + [rng.randbytes(rng.randint(1, 8)) for _ in range(rng.randint(0, 3))]
    if k < 0.2:
        return [rng.randbytes(rng.randint(1, 6)) for _ in range(rng.randint(50, 200))]
    specials = [b"\x00", b"\x0a", b"\x0d\x0a", b"\xff" * 3, b"\x20\x09", bytes(range(256))]
    return [rng.choice(specials) if rng.random() < 0.2 else rng.randbytes(rng.choice([1, 2, 3, 16, 255, 256, rng.randint(1, 600)])) for _ in range(rng.randint(1, 12))]


async def connect_path_case(kind: str, msgs: list[bytes]) -> dict[str, Any]:
    """through the production connect() (asyncio.open_connection / open_unix_connection replaced by the in-memory hub, which honours
    the stream limit the production code asks for): the peer echoes every line back"""
    from vf import gateway
    from gallia.transports.tcp import TCPLinesTransport
    from gallia.transports.unix import UnixLinesTransport

    def split(buf: bytearray) -> list[bytes]:
        out = []
        while b"\n" in buf:
            i = buf.index(b"\n")
            out.append(bytes(buf[: i + 1]))
            del buf[: i + 1]
        return out

    def factory(n: int) -> Any:
        g = gateway.Gateway(split)
        g.on_client_frame = lambda now, f: g.send(0.001, f, "echo", header_len=0)
        return g

    got: list[Any] = []
    with gateway.GatewayHub(factory):
        if kind == "tcp-lines":
            tr = await TCPLinesTransport.connect("tcp-lines://192.0.2.1:1234", timeout=1.0)
        else:
            tr = await UnixLinesTransport.connect("unix-lines:///nonexistent/vf.sock", timeout=1.0)
        for m in msgs:
            await tr.write(m, timeout=1.0)
            try:
                got.append(await tr.read(timeout=1.0))
            except Exception as e:
                got.append(("exc", type(e).__name__))
        await tr.close()
    return {"got": got}


def encode(msgs: list[bytes]) -> bytes:
    return b"".join(hexlify(m) + b"\n" for m in msgs)


def make_transport(kind: str, reader: asyncio.StreamReader, writer: Any) -> Any:
    from gallia.transports.base import TargetURI
    from gallia.transports.tcp import TCPLinesTransport
    from gallia.transports.unix import UnixLinesTransport

    if kind == "tcp-lines":
        return TCPLinesTransport(TargetURI("tcp-lines://127.0.0.1:1"), reader, writer)
    return UnixLinesTransport(TargetURI("unix-lines:///x.sock"), reader, writer)


async def feed(reader: asyncio.StreamReader, stream: bytes, cuts: list[int], gap: float, eof: bool) -> None:
    pos = 0
    for c in cuts + [len(stream)]:
        if c > pos:
            reader.feed_data(stream[pos:c])
            pos = c
            if gap:
                await asyncio.sleep(gap)
            else:
                await asyncio.sleep(0)
    if eof:
        reader.feed_eof()


async def client_read_case(kind: str, msgs: list[bytes], cuts: list[int], gap: float, eof_at: int | None) -> dict[str, Any]:
    """peer sends msgs (possibly cut short by EOF at byte offset eof_at); the client reads until EOF/exception"""
    reader = memstream.new_reader()
    tr = make_transport(kind, reader, memstream.MemWriter())
    stream = encode(msgs)
    if eof_at is not None:
        stream = stream[:eof_at]
    feeder = asyncio.ensure_future(feed(reader, stream, [c for c in cuts if c < len(stream)], gap, True))
    got: list[Any] = []
    for _ in range(len(msgs) + 3):
        try:
            m = await tr.read(timeout=30.0)
        except Exception as e:
            got.append(("exc", type(e).__name__))
            break
        got.append(m)
        if m == b"":
            break
    await feeder
    return {"got": got, "sent_bytes": len(stream)}


async def client_timeout_case(kind: str, msgs: list[bytes], line_idx: int, prefix: int) -> dict[str, Any]:
    """deliver everything before line `line_idx`, then only `prefix` bytes of that line; a read times out; then the rest arrives"""
    reader = memstream.new_reader()
    tr = make_transport(kind, reader, memstream.MemWriter())
    lines = [hexlify(m) + b"\n" for m in msgs]
    before = b"".join(lines[:line_idx])
    cur = lines[line_idx]
    rest = b"".join(lines[line_idx + 1 :])
    reader.feed_data(before + cur[:prefix]) if before + cur[:prefix] else None
    got: list[Any] = []
    for _ in range(line_idx):
        got.append(await tr.read(timeout=1.0))
    timed_out = False
    try:
        m = await tr.read(timeout=0.5)
        got.append(m)
    except TimeoutError:
        timed_out = True
    except Exception as e:
        got.append(("exc", type(e).__name__))
    reader.feed_data(cur[prefix:] + rest)
    reader.feed_eof()
    for _ in range(len(msgs) - len([g for g in got if isinstance(g, bytes)]) + 1):
        try:
            m = await tr.read(timeout=1.0)
        except Exception as e:
            got.append(("exc", type(e).__name__))
            break
        got.append(m)
        if m == b"":
            break
    return {"got": got, "timed_out": timed_out}


async def client_write_case(kind: str, msgs: list[bytes]) -> bytes:
    w = memstream.MemWriter()
    tr = make_transport(kind, memstream.new_reader(), w)
    for m in msgs:
        await tr.write(m, timeout=1.0)  # the return value (a byte count) is not part of the statement
    return bytes(w.buffer)


async def server_case(msgs: list[bytes], cuts: list[int], eof_at: int | None, eof_with_data: bool = False) -> dict[str, Any]:
    from gallia.services.uds.server import TCPUDSServerTransport
    from gallia.transports.base import TargetURI

    seen: list[bytes] = []

    class Responder(TCPUDSServerTransport):
        async def handle_request(self, request_pdu: bytes) -> tuple[bytes | None, float]:
            seen.append(bytes(request_pdu))
            if request_pdu[0] & 1:
                return None, 0.0  # e.g. a suppressed positive response
            return bytes([len(seen) & 0xFF]) + request_pdu[::-1], 0.0

    tr = Responder(None, TargetURI("tcp-lines://127.0.0.1:1"))  # type: ignore[arg-type]
    reader = memstream.new_reader()
    writer = memstream.MemWriter()
    stream = encode(msgs)
    if eof_at is not None:
        stream = stream[:eof_at]
    task = asyncio.ensure_future(tr.handle_client(reader, writer))  # type: ignore[arg-type]
    if eof_with_data:
        # the client sends its burst and closes at once: end of stream is already known while complete lines still wait in the buffer
        reader.feed_data(stream)
        reader.feed_eof()
        early = False
    else:
        await feed(reader, stream, [c for c in cuts if c < len(stream)], 0, False)
        for _ in range(10):
            await asyncio.sleep(0)
        early = task.done()
        reader.feed_eof()
    exc = None
    try:
        await asyncio.wait_for(task, 5)
    except Exception as e:
        exc = type(e).__name__
    return {"seen": seen, "out": bytes(writer.buffer), "early": early, "exc": exc}


class Mon:
    def __init__(self, ctx: Any):
        self.ctx = ctx

    def run(self, coro: Any, w: dict[str, Any], what: str) -> Any:
        try:
            return vtime.run(coro, cpu_limit=45.0)
        except vtime.Deadlock:
            self.ctx.violation(f"{what}/blocks-forever", "operation can never complete (nothing scheduled, nothing readable)", w)
            return None
        except vtime.Spinning:
            self.ctx.violation(f"{what}/spins-without-yielding", "the operation burns CPU without ever reaching a suspension point (no timeout of the caller can end it)", w)
            return None

    def check_read(self, kind: str, msgs: list[bytes], cuts: list[int], gap: float, eof_at: int | None) -> None:
        ctx = self.ctx
        stream = encode(msgs)
        w = {"kind": kind, "messages": msgs if len(msgs) <= 8 and all(len(m) <= 40 for m in msgs) else f"{len(msgs)} messages, lengths {[len(m) for m in msgs][:12]}",
             "cuts": cuts[:20], "gap": gap, "eof_at": eof_at}
        inside = any(stream[c - 1 : c] != b"\n" for c in cuts if 0 < c < len(stream))
        coalesced = any(stream[a:b].count(b"\n") > 1 for a, b in zip([0] + cuts, cuts + [len(stream)]))
        midline_eof = eof_at is not None and 0 < eof_at < len(stream) and stream[eof_at - 1 : eof_at] != b"\n"
        ctx.case((kind, tuple(msgs) if len(msgs) < 6 else hash(tuple(msgs)), tuple(cuts), gap, eof_at), nontrivial=inside or coalesced or midline_eof)
        ctx.reach(f"kind.{kind}")
        if inside:
            ctx.reach("split.inside-line")
        if coalesced:
            ctx.reach("coalesced")
        out = self.run(client_read_case(kind, msgs, cuts, gap, eof_at), w, f"client/{kind}/read")
        if out is None:
            return
        got = out["got"]
        ctx.reach("client.reads", len(got))
        # which messages were sent completely?
        if eof_at is None:
            complete = list(msgs)
        else:
            complete = [unhexlify(l) for l in stream[:eof_at].split(b"\n")[:-1]]
        delivered = [g for g in got if isinstance(g, bytes) and g != b""]
        w2 = {**w, "got": got[:12], "complete_messages": len(complete)}
        if delivered[: len(complete)] != complete:
            how = "reordered-or-altered" if len(delivered) >= len(complete) else "lost"
            ctx.violation(f"client/read/{how}", "messages delivered by read() differ from the complete messages the peer sent", w2)
            return
        extra = delivered[len(complete) :]
        if extra:
            ctx.violation("client/read/eof-mid-line-yields-message" if midline_eof else "client/read/fabricated-message",
                          "read() returned a message the peer never sent completely (partial line at end of stream)", w2)
            return
        if midline_eof:
            ctx.reach("eof.mid-line")
        else:
            ctx.reach("eof.boundary")
            tail = got[len(complete) :]
            if tail[:1] != [b""]:
                ctx.violation("client/read/eof-not-signalled", "end of stream at a message boundary is not reported as the explicit EOF result", w2)

    def check_timeout(self, kind: str, msgs: list[bytes], line_idx: int, prefix: int) -> None:
        ctx = self.ctx
        w = {"kind": kind, "messages": msgs, "line": line_idx, "prefix": prefix}
        ctx.case((kind, "timeout", tuple(msgs), line_idx, prefix))
        ctx.reach("timeout.mid-line" if prefix > 0 else "timeout.empty-buffer")
        out = self.run(client_timeout_case(kind, msgs, line_idx, prefix), w, f"client/{kind}/read-timeout")
        if out is None:
            return
        got = out["got"]
        if not out["timed_out"]:
            ctx.violation("client/read/no-timeout-on-partial-line", "a read returned although only part of a line had arrived", {**w, "got": got[:8]})
            return
        delivered = [g for g in got if isinstance(g, bytes) and g != b""]
        if delivered != msgs:
            ctx.violation("client/read/timeout-consumes-data", "after a read timed out mid-line the next reads do not deliver the complete messages", {**w, "got": got[:8]})

    def check_connect_path(self, kind: str, msgs: list[bytes]) -> None:
        ctx = self.ctx
        ctx.case((kind, "connect-path", hash(tuple(msgs))), nontrivial=True)
        ctx.reach("connect-path")
        w = {"kind": kind, "lengths": [len(m) for m in msgs][:12]}
        out = self.run(connect_path_case(kind, msgs), w, f"client/{kind}/connect-path")
        if out is None:
            return
        if out["got"] != msgs:
            bad = next((i for i, (a, b) in enumerate(zip(out["got"], msgs)) if a != b), 0)
            ln = len(msgs[bad])
            ctx.violation(f"client/connect-path/{kind}/message-not-delivered/{'len>2048' if ln > 2048 else 'len<=2048'}",
                          "a message echoed by the peer over a connection opened with connect() is not delivered intact", {**w, "first_bad": bad, "got": out["got"][bad] if bad < len(out["got"]) else None})

    def check_write(self, kind: str, msgs: list[bytes]) -> None:
        ctx = self.ctx
        ctx.case((kind, "write", hash(tuple(msgs))), nontrivial=True)
        out = self.run(client_write_case(kind, msgs), {"kind": kind}, f"client/{kind}/write")
        if out is None:
            return
        ctx.reach("client.writes", len(msgs))
        lines = out.split(b"\n")
        try:
            dec = [unhexlify(l) for l in lines[:-1]]
        except Exception:
            dec = None
        if lines[-1] != b"" or dec != msgs:
            ctx.violation("client/write/encoding", "bytes put on the stream do not decode to the written message sequence", {"kind": kind, "messages": msgs[:6], "stream": out[:200]})

    def check_server(self, msgs: list[bytes], cuts: list[int], eof_at: int | None, eof_with_data: bool = False) -> None:
        ctx = self.ctx
        stream = encode(msgs)
        midline_eof = eof_at is not None and 0 < eof_at < len(stream) and stream[eof_at - 1 : eof_at] != b"\n"
        w = {"messages": msgs if len(msgs) <= 8 and all(len(m) <= 40 for m in msgs) else f"{len(msgs)} messages", "cuts": cuts[:20], "eof_at": eof_at}
        ctx.case(("server", tuple(msgs) if len(msgs) < 6 else hash(tuple(msgs)), tuple(cuts), eof_at), nontrivial=True)
        if eof_with_data:
            ctx.reach("server.eof-with-data")
            w["eof_with_data"] = True
        out = self.run(server_case(msgs, cuts, eof_at, eof_with_data), w, "server-loop")
        if out is None:
            return
        complete = list(msgs) if eof_at is None else [unhexlify(l) for l in stream[:eof_at].split(b"\n")[:-1]]
        ctx.reach("server.requests", len(out["seen"]))
        if midline_eof:
            ctx.reach("server.eof.mid-line")
        w2 = {**w, "seen": out["seen"][:10], "complete": len(complete), "exc": out["exc"]}
        if out["early"]:
            ctx.violation("server-loop/ends-before-eof", "the server loop ended although the client had not closed", w2)
            return
        if out["seen"][: len(complete)] != complete:
            ctx.violation("server-loop/requests-differ", "requests handed to the ECU differ from the messages the client sent", w2)
            return
        if len(out["seen"]) > len(complete):
            ctx.violation("server-loop/eof-mid-line-yields-request", "a partial line at end of stream was handled as a request", w2)
            return
        want = b"".join(hexlify(bytes([(i + 1) & 0xFF]) + m[::-1]) + b"\n" for i, m in enumerate(complete) if not m[0] & 1)
        if out["out"] != want:
            ctx.violation("server-loop/replies-differ", "reply lines differ from one line per answered request, in order", {**w2, "out": out["out"][:120], "want": want[:120]})


def run(ctx: Any, params: dict[str, Any]) -> None:
    import gallia.command  # noqa: F401

    vtime.quiet_logging()
    rng = ctx.rng
    mon = Mon(ctx)
    for i in range(params["n"]):
        kind = ("tcp-lines", "unix-lines")[i % 2]
        # short base sequence: exhaustive single splits, timeouts at every prefix, EOF at every offset
        msgs = gen_messages(rng, short=True)
        stream = encode(msgs)
        if i % 6 == 0:
            for c in range(1, len(stream)):
                mon.check_read(kind, msgs, [c], rng.choice([0, 0.01]), None)
            for e in range(0, len(stream) + 1):
                mon.check_read(kind, msgs, [], 0, e)
                if i % 12 == 0:
                    mon.check_server(msgs, [rng.randrange(1, len(stream))], e)
            lines = [hexlify(m) + b"\n" for m in msgs]
            for li, ln in enumerate(lines):
                for p in range(0, len(ln)):
                    mon.check_timeout(kind, msgs, li, p)
        # longer sequences: multi-splits, byte-by-byte, coalesced
        msgs = gen_messages(rng, short=False)
        stream = encode(msgs)
        if any(len(m) >= 4094 for m in msgs):
            ctx.reach("long-message")
        if len(msgs) >= 50:
            ctx.reach("burst")
        plans: list[list[int]] = [[], sorted(rng.sample(range(1, len(stream)), min(len(stream) - 1, rng.randint(1, 12))))]
        if len(stream) < 400:
            plans.append(list(range(1, len(stream))))
        for cuts in plans:
            mon.check_read(kind, msgs, cuts, rng.choice([0, 0, 0.001]), rng.choice([None, None, rng.randrange(len(stream) + 1)]))
        mon.check_write(kind, msgs)
        if i % 4 < 2:
            mon.check_connect_path(kind, [rng.randbytes(n) for n in rng.sample([1, 2, 255, 2047, 2048, 2049, 3000, 4094, 4095], 4)] + msgs[:3])
        mon.check_server(msgs, plans[1], rng.choice([None, None, rng.randrange(len(stream) + 1)]))
        mon.check_server(msgs, [], rng.choice([None, None, rng.randrange(len(stream) + 1)]), eof_with_data=True)
        if i % 20 == 0:
            ctx.sample({"kind": kind, "messages": [m for m in msgs[:4]], "cuts": plans[1][:8]})
        if ctx.out_of_time():
            break


def replay(ctx: Any, witness: dict[str, Any]) -> None:
    import gallia.command  # noqa: F401

    vtime.quiet_logging()

    def ux(x: Any) -> bytes:
        return bytes.fromhex(x[4:]) if isinstance(x, str) and x.startswith("hex:") else x

    mon = Mon(ctx)
    msgs = witness.get("messages")
    if not isinstance(msgs, list):
        print("witness carries only a summary of a long sequence; re-run the tier with the recorded seed")
        return
    msgs = [ux(m) for m in msgs]
    if "line" in witness:
        mon.check_timeout(witness["kind"], msgs, witness["line"], witness["prefix"])
    elif "kind" in witness:
        mon.check_read(witness["kind"], msgs, witness.get("cuts", []), witness.get("gap", 0), witness.get("eof_at"))
    else:
        mon.check_server(msgs, witness.get("cuts", []), witness.get("eof_at"), witness.get("eof_with_data", False))
