"""C20 Target URIs and range expressions denote exactly what the user wrote.

Generate-with-denotation: every input is built together with its meaning, the oracle is equality
with that meaning (DESIGN.md section 3, C20).
"""

from __future__ import annotations

import ipaddress
import random
from typing import Any

PROPERTY = "C20"
LEVEL = "exploration"
RULE = (
    "inputs are generated together with their denotation from explicit grammars (hosts: lower-case DNS names, "
    "IPv4, IPv6 in compressed/exploded/mixed spellings, scoped IPv6 literals address%zone (link-local / link-scope "
    "multicast addresses with an interface name or index as zone id) with and without port; ports None|0..65535 "
    "incl. all boundaries; parameter maps "
    "per transport scheme with integers spelled dec/hex/oct/bin; range expressions: items int|lo-hi joined by ',' "
    "(1-D) and outer:inner entries joined by spaces (2-D), overlaps, singletons, reversed, repeated/bare outer "
    "keys) plus strings outside the grammar; every URI case uses both URI objects (the built and the re-parsed one) a "
    "second time after the caller made 1..3 edits (change a value, delete a key, clear, add a key) to the parameter map "
    "it had got back from the URI and to the map it had handed to from_parts; a case is non-trivial when it is not the empty string; distinct = "
    "distinct (kind, input) pairs"
)
ASSUMPTIONS = [
    "DNS names are generated in lower case; parameter values are non-empty",
    "IPv6 zone ids are interface names or indices over [A-Za-z0-9._-] (no character that needs escaping in a URI); a scoped "
    "host is the same host only if the address is equal by value AND the zone id is equal character by character "
    "(interface names are case sensitive; another zone id is another interface, not a re-spelling)",
    "time/size settings (ack_timeout, frame_txtime, tx_dl) are spelled in decimal as the discovery scanners emit them; "
    "address-like settings are spelled in all four notations",
    "a reversed range lo-hi with lo>hi may denote the empty set or be rejected; both are accepted",
]
EXHAUSTIVE = {"quick": False, "thorough": False}
ENGINE = "grammar-generators"
TECHNIQUE = "runtime oracle on generated inputs: generate-with-denotation (URI parts, host/port, range grammar) and compare the real parsers' results with the constructed meaning, at the first use of a URI object and again after the caller edited the maps it owns"
LEVEL_TEXT = (
    "Exploration: 10^4 (quick) to 10^6 (thorough) generated URIs, host/port pairs and range expressions are pushed through "
    "the real TargetURI / split_host_port / join_host_port / transport Config / unravel / unravel_2d / Ranges / Ranges2D code "
    "and compared with the meaning they were generated from; each URI object is read and handed to its transport config a "
    "second time after the caller edited the parameter maps it owns. Held means held on those inputs; the grammars are the ones the "
    "statement names."
)
LEVEL_NOTE = (
    "Trusted: the input grammars in vf/checks/c20.py, Python's ipaddress module for IPv6 equality (address part; the zone id of a "
    "scoped literal is compared as text). DNS names are lower-case."
)


def shards(tier: str, seed: int) -> list[dict[str, Any]]:
    n = 4 if tier == "quick" else 16
    per = 6000 if tier == "quick" else 120000
    return [{"n": per, "part": i} for i in range(n)]


def required_reach(tier: str) -> dict[str, int]:
    return {
        "uri.ipv6+port": 50,
        "uri.ipv4": 50,
        "uri.dns": 50,
        "uri.port0": 1,
        "uri.port65535": 1,
        "uri.noport": 50,
        "cfg.doip": 50,
        "cfg.hsfz": 50,
        "cfg.isotp": 50,
        "hostport.roundtrip": 200,
        # scoped IPv6 literals (address%zone): URI with / without port, host:port joined and bare
        "uri.ipv6z+port": 50,
        "uri.ipv6z.noport": 10,
        "uri.netloc-split.ipv6z+port": 50,
        "hostport.ipv6z+port": 50,
        "hostport.ipv6z.bare": 10,
        "zone.name": 50,
        "zone.index": 20,
        "range1d.valid": 500,
        "range1d.invalid": 100,
        "range2d.valid": 500,
        "range2d.bare_outer": 50,
        "range2d.invalid": 50,
        "ranges_type.str": 100,
        "ranges_type.list": 100,
        "ranges_type.ints": 100,
        "uri.path": 50,
        # further uses of the same URI object after the caller edited the map it got back / handed in
        "uri.second-use": 500,
        "uri.second-use.edited": 500,
        "uri.second-use.edit.change": 50,
        "uri.second-use.edit.delete": 50,
        "uri.second-use.edit.clear": 50,
        "uri.second-use.edit.add": 50,
        "cfg.second-use.doip": 50,
        "cfg.second-use.hsfz": 50,
        "cfg.second-use.isotp": 50,
        "spelling.hex": 100,
        "spelling.oct": 100,
        "spelling.bin": 100,
    }


# ---------------------------------------------------------------------------------------------
def spell(rng: random.Random, v: int, ctx: Any = None) -> str:
    k = rng.randrange(6)
    if k <= 1:
        return str(v)
    if k == 2:
        if ctx:
            ctx.reach("spelling.hex")
        return f"{v:#x}" if rng.random() < 0.7 else f"0X{v:X}"
    if k == 3:
        if ctx:
            ctx.reach("spelling.hex")
        return f"0x{v:04x}"
    if k == 4:
        if ctx:
            ctx.reach("spelling.oct")
        return f"{v:#o}"
    if ctx:
        ctx.reach("spelling.bin")
    return f"{v:#b}"


def gen_host(rng: random.Random) -> tuple[str, str]:
    k = rng.randrange(10)
    if k < 3:
        labels = []
        for _ in range(rng.randint(1, 4)):
            ln = rng.choice([1, 2, 3, 8, 20, 63])
            first = rng.choice("abcdefghijklmnopqrstuvwxyz")
            rest = "".join(rng.choice("abcdefghijklmnopqrstuvwxyz0123456789-") for _ in range(max(0, ln - 2)))
            last = rng.choice("abcdefghijklmnopqrstuvwxyz0123456789") if ln > 1 else ""
            labels.append(first + rest + last)
        return "dns", ".".join(labels)
    if k < 6:
        v = rng.choice([0, 1, 0x7F000001, 0xC0000202, 0xFFFFFFFF, rng.getrandbits(32)])
        return "ipv4", str(ipaddress.IPv4Address(v))
    if k >= 8:
        return gen_scoped_ipv6(rng)
    specials = [0, 1, 1 << 127, (1 << 128) - 1, 0xFE80 << 112 | 1, 0x20010DB8 << 96, 0x20010DB8 << 96 | 0xFFFF]
    v = rng.choice(specials) if rng.random() < 0.3 else rng.getrandbits(128)
    if rng.random() < 0.5:
        # zero out random groups so compression has something to do
        for g in range(8):
            if rng.random() < 0.4:
                v &= ~(0xFFFF << (16 * g))
    a = ipaddress.IPv6Address(v)
    form = rng.randrange(3)
    if form == 0:
        return "ipv6", a.compressed
    if form == 1:
        return "ipv6", a.exploded
    return "ipv6", a.compressed.upper()


ZONE_NAMES = ["eth0", "eth1", "enp0s31f6", "wlan0", "br-lan", "eth0.100", "vlan_7", "lo", "en0", "Eth0", "tun-A1"]
ZONE_CHARS = "abcdefghijklmnopqrstuvwxyz0123456789"


def gen_zone(rng: random.Random) -> tuple[str, str]:
    """zone id of a scoped IPv6 literal: an interface name or an interface index"""
    k = rng.randrange(10)
    if k < 3:
        return "index", str(rng.choice([1, 2, 3, 9, 10, 25, 250, rng.randint(1, 99999)]))
    if k < 6:
        return "name", rng.choice(ZONE_NAMES)
    name = rng.choice("abcdefghijklmnopqrstuvwxyz") + "".join(rng.choice(ZONE_CHARS + "._-") for _ in range(rng.randint(0, 12))) + rng.choice(ZONE_CHARS)
    return "name", name


def gen_scoped_ipv6(rng: random.Random) -> tuple[str, str]:
    """address%zone: link-local unicast (fe80::/64 + interface id) or link-scope multicast (ff02::/16), every spelling"""
    if rng.random() < 0.85:
        iid = rng.choice([1, 2, 0xFFFF, (1 << 64) - 1, rng.getrandbits(16), rng.getrandbits(64)])
        v = (0xFE80 << 112) | iid
    else:
        v = (0xFF02 << 112) | rng.choice([1, 2, 0xFB, 0x1FF000000 | rng.getrandbits(24)])
    a = ipaddress.IPv6Address(v)
    form = rng.randrange(3)
    text = a.compressed if form == 0 else a.exploded if form == 1 else a.compressed.upper()
    _, zone = gen_zone(rng)
    return "ipv6z", f"{text}%{zone}"


def reach_zone(ctx: Any, kind: str, host: str) -> None:
    if kind == "ipv6z":
        ctx.reach("zone.index" if host.partition("%")[2].isdigit() else "zone.name")


def gen_port(rng: random.Random) -> int | None:
    k = rng.randrange(10)
    if k < 2:
        return None
    if k < 5:
        return rng.choice([0, 1, 2, 79, 80, 1023, 1024, 6801, 13400, 65534, 65535])
    return rng.randrange(65536)


def hosts_equal(kind: str, want: str, got: str | None) -> bool:
    if got is None:
        return False
    if kind == "ipv6":
        try:
            return ipaddress.IPv6Address(got) == ipaddress.IPv6Address(want)
        except ValueError:
            return False
    if kind == "ipv6z":
        # a scoped literal: same address by value AND the very same zone id (the zone names an interface;
        # "25eth0" or "ETH0" is another interface than "eth0", not another spelling of it)
        w_addr, w_pct, w_zone = want.partition("%")
        g_addr, g_pct, g_zone = got.partition("%")
        if g_pct != w_pct or g_zone != w_zone:
            return False
        try:
            return ipaddress.IPv6Address(g_addr) == ipaddress.IPv6Address(w_addr)
        except ValueError:
            return False
    return got == want


def host_kind(host: str) -> str:
    """kind of a literal host (for replaying a witness)"""
    return "ipv6z" if "%" in host else "ipv6" if ":" in host else "other"


SCHEME_PARAMS: dict[str, list[tuple[str, str, int]]] = {
    # scheme -> (key, kind, max)
    "doip": [("src_addr", "addr", 0xFFFF), ("target_addr", "addr", 0xFFFF), ("activation_type", "addr", 0xFF), ("protocol_version", "addr", 0xFF)],
    "hsfz": [("src_addr", "addr", 0xFF), ("dst_addr", "addr", 0xFF), ("ack_timeout", "dec", 100000)],
    "isotp": [
        ("src_addr", "addr", 0x1FFFFFFF), ("dst_addr", "addr", 0x1FFFFFFF), ("ext_address", "addr", 0xFF),
        ("rx_ext_address", "addr", 0xFF), ("tx_padding", "addr", 0xFF), ("rx_padding", "addr", 0xFF),
        ("frame_txtime", "dec", 1000), ("tx_dl", "dec", 64),
    ],
}
REQUIRED = {"doip": {"src_addr", "target_addr"}, "hsfz": {"src_addr", "dst_addr"}, "isotp": {"src_addr", "dst_addr"}}


def case_uri(ctx: Any, rng: random.Random) -> None:
    from gallia.transports.base import TargetURI
    from gallia.transports.schemes import TransportScheme

    scheme = rng.choice(["doip", "hsfz", "isotp", "tcp-lines", "unix-lines", "tcp", "can-raw", "unix"])
    kind, host = gen_host(rng)
    port = gen_port(rng)
    if scheme == "isotp" and rng.random() < 0.7:
        kind, host, port = "dns", rng.choice(["vcan0", "can0", "can1"]), None
    args: dict[str, Any] = {}
    meaning: dict[str, int] = {}
    if scheme in SCHEME_PARAMS:
        for key, pk, mx in SCHEME_PARAMS[scheme]:
            if key in REQUIRED[scheme] or rng.random() < 0.5:
                v = rng.choice([0, 1, mx, mx - 1, rng.randint(0, mx)])
                meaning[key] = v
                if pk == "dec":
                    args[key] = v if rng.random() < 0.5 else str(v)
                else:
                    args[key] = spell(rng, v, ctx)
    else:
        for _ in range(rng.randint(0, 3)):
            key = "k" + "".join(rng.choice("abcxyz_") for _ in range(rng.randint(1, 5)))
            args[key] = "".join(rng.choice("abcdefXYZ019 -_.~:/?#[]@!$&'()*+,;=%äß中") for _ in range(rng.randint(1, 12)))
    case = {"scheme": scheme, "host": host, "port": port, "args": args}
    ctx.case(("uri", scheme, host, port, sorted(args.items(), key=str)))
    ctx.reach(f"uri.{kind}")
    reach_zone(ctx, kind, host)
    if port is None:
        ctx.reach("uri.noport")
        if kind == "ipv6z":
            ctx.reach("uri.ipv6z.noport")
    elif kind in ("ipv6", "ipv6z"):
        ctx.reach(f"uri.{kind}+port")
    if port in (0, 65535):
        ctx.reach(f"uri.port{port}")
    ctx.sample({"kind": "uri", **case})
    comp = f"{kind}{'+port' if port is not None else ''}"
    try:
        given = dict(args)  # the caller's own parameter map (edited by the caller further down)
        built = TargetURI.from_parts(scheme, host, port, given)
        raw = str(built)
        u = TargetURI(raw)
        got_scheme = u.scheme
        got_host = u.hostname
        got_port = u.port
        flat = u.qs_flat
    except Exception as e:
        ctx.violation(f"uri/roundtrip-raises/{comp}/{type(e).__name__}", f"TargetURI round trip raises {type(e).__name__} for {comp} host", {"kind": "uri", "case": case, "error": repr(e)})
        return
    case["uri"] = raw
    if got_scheme != TransportScheme(scheme) or str(got_scheme) != scheme:
        ctx.violation("uri/scheme-differs", "scheme differs after round trip", {"kind": "uri", "case": case, "got": str(got_scheme)})
    if not hosts_equal(kind, host, got_host):
        ctx.violation(f"uri/host-differs/{kind}", "hostname differs after round trip", {"kind": "uri", "case": case, "got": got_host})
    if got_port != port:
        ctx.violation(f"uri/port-differs/{comp}/{'port0' if port == 0 else 'other'}", "port differs after round trip", {"kind": "uri", "case": case, "got": got_port})
    want_flat = {k: str(v) for k, v in args.items()}
    if flat != want_flat:
        ctx.violation("uri/params-differ", "parameter map differs after round trip", {"kind": "uri", "case": case, "got": flat})
    if scheme in ("unix-lines", "unix") or rng.random() < 0.1:
        # socket paths (and any other path the user wrote) are part of what the URI denotes
        from urllib.parse import quote as _q

        pth = "/" + "/".join("".join(rng.choice("abcXYZ019-_.~") for _ in range(rng.randint(1, 8))) for _ in range(rng.randint(1, 4)))
        if rng.random() < 0.3:
            pth += rng.choice(["/a b", "/ä", "/x%y"])
        qs = raw.split("?", 1)[1] if "?" in raw else ""
        forms = [f"{scheme}://{_q(pth)}" + (f"?{qs}" if qs else "")]
        if port is not None or kind not in ("ipv6", "ipv6z"):
            forms.append(raw.split("?", 1)[0] + _q(pth) + (f"?{qs}" if qs else ""))
        for raw3 in forms:
            ctx.reach("uri.path")
            try:
                u3 = TargetURI(raw3)
                got_path = u3.path
                flat3 = u3.qs_flat
            except Exception as e:
                ctx.violation(f"uri/path/raises/{type(e).__name__}", "a URI with a path cannot be read", {"kind": "uri", "case": {**case, "uri": raw3}, "error": repr(e)})
                continue
            from urllib.parse import unquote as _uq

            if got_path is None or _uq(got_path) != pth:
                ctx.violation("uri/path-differs", "the path of the URI is not the one written", {"kind": "uri", "case": {**case, "uri": raw3}, "got": got_path, "want": pth})
            if flat3 != want_flat:
                ctx.violation("uri/params-differ/with-path", "parameter map differs when the URI has a path", {"kind": "uri", "case": {**case, "uri": raw3}, "got": flat3})
    if args and rng.random() < 0.4:
        # a key written twice: the documented reading (TargetURI.qs_flat) is "the first found key/value pair"
        from urllib.parse import quote

        k2 = rng.choice(sorted(args))
        other = rng.choice(["0", "1", "0xff", "7", "zz"])
        raw2 = raw + ("&" if "?" in raw else "?") + f"{quote(k2)}={other}"
        ctx.reach("uri.repeated-key")
        try:
            flat2 = TargetURI(raw2).qs_flat
        except Exception as e:
            ctx.violation(f"uri/repeated-key/raises/{type(e).__name__}", "a URI with a repeated query key cannot be read", {"kind": "uri", "case": {**case, "uri": raw2}, "error": repr(e)})
        else:
            if flat2 != want_flat and str(args[k2]) != other:
                ctx.violation("uri/repeated-key/not-first-value", "for a key written twice the parameter map does not hold the first value", {"kind": "uri", "case": {**case, "uri": raw2}, "got": flat2})
    # the netloc of the URI is a host:port string (what the capture helpers split again): it splits to the same host and port
    from gallia.net import split_host_port

    ctx.reach(f"uri.netloc-split.{comp}")
    try:
        h4, p4 = split_host_port(u.netloc)
    except Exception as e:
        ctx.violation(f"uri/netloc-split/raises/{comp}/{type(e).__name__}", "split_host_port raises on the netloc of a built URI", {"kind": "uri", "case": case, "netloc": u.netloc, "error": repr(e)})
    else:
        if not hosts_equal(kind, host, h4):
            ctx.violation(f"uri/netloc-split/host-differs/{kind}", "the netloc of a built URI splits to another host", {"kind": "uri", "case": case, "netloc": u.netloc, "got": [h4, p4]})
        if p4 != port:
            ctx.violation(f"uri/netloc-split/port-differs/{comp}/{'port0' if port == 0 else 'other'}", "the netloc of a built URI splits to another port", {"kind": "uri", "case": case, "netloc": u.netloc, "got": [h4, p4]})
    loc_ok = u.location == f"{scheme}://{u.netloc}"
    if not loc_ok:
        ctx.violation("uri/location", "location is not scheme://netloc", {"kind": "uri", "case": case, "got": u.location})
    # transport config acceptance with the same numeric settings
    first_ok = check_cfg(ctx, scheme, flat, meaning, case, "cfg", "cfg")
    # ---- further uses of the same URI objects after the caller edited what it got back / what it handed in ----
    # (a URI is handed to connect() and used again by reconnect(); scanners derive the URI of the next ECU from the
    # parameter map of the one just found: what the URI denotes is what was written, at every use)
    edits = gen_edits(rng, want_flat, scheme)
    apply_edits(flat, edits)  # the caller's copy of the parameter map, obtained from u
    apply_edits(given, gen_edits(rng, want_flat, scheme))  # the caller's own map, handed to from_parts
    ctx.reach("uri.second-use")
    for e in edits:
        ctx.reach(f"uri.second-use.edit.{e[0]}")
    if flat != want_flat:
        ctx.reach("uri.second-use.edited")
    for who, obj in (("parsed", u), ("built", built)):
        w = {"kind": "uri", "case": case, "object": who, "edits": edits}
        try:
            again = {
                "text": str(obj), "scheme": str(obj.scheme), "port": obj.port, "netloc": obj.netloc,
                "location": obj.location, "hostname": obj.hostname,
            }
            flat_b = obj.qs_flat
        except Exception as e:
            ctx.violation(f"uri/second-use/raises/{type(e).__name__}", "the URI object cannot be read a second time", {**w, "error": repr(e)})
            continue
        firsts = {"text": raw, "scheme": scheme, "port": port, "netloc": u.netloc, "location": f"{scheme}://{u.netloc}", "hostname": got_host}
        for name, first in firsts.items():
            if again[name] != first:
                ctx.violation(f"uri/second-use/{name}-differs", f"{name} of the same URI object differs at its second use", {**w, "got": again[name], "first": first})
        if flat_b != want_flat:
            ctx.violation(
                "uri/second-use/params-differ",
                "the parameter map of the same URI object differs from the written one after the caller edited the map it had got back",
                {**w, "got": flat_b},
            )
        if scheme in SCHEME_PARAMS and first_ok:
            ctx.reach(f"cfg.second-use.{scheme}")
            check_cfg(ctx, scheme, flat_b, meaning, w, "cfg-second-use", "at the second use of the same URI object: ")


def check_cfg(ctx: Any, scheme: str, flat: dict[str, str], meaning: dict[str, int], witness_case: dict[str, Any], prefix: str, what: str) -> bool:
    """the transport config of the scheme accepts the parameter map and holds the numbers that were written"""
    if scheme not in SCHEME_PARAMS:
        return False
    if scheme == "doip":
        from gallia.transports.doip import DoIPConfig as Cfg
    elif scheme == "hsfz":
        from gallia.transports.hsfz import HSFZConfig as Cfg
    else:
        from gallia.transports.isotp import ISOTPConfig as Cfg
    second = prefix != "cfg"
    wit = witness_case if second else {"kind": "uri", "case": witness_case}
    if not second:
        ctx.reach(f"cfg.{scheme}")
    try:
        cfg = Cfg(**flat)
    except Exception as e:
        ctx.violation(
            f"{prefix}/{scheme}/rejects/{type(e).__name__}",
            f"{what if second else ''}{scheme} config rejects parameters of a generated URI",
            {**wit, "error": repr(e)[:300]},
        )
        return False
    for key, v in meaning.items():
        if getattr(cfg, key) != v:
            ctx.violation(
                f"{prefix}/{scheme}/value-differs/{key}",
                f"{what if second else ''}{scheme} config field {key} differs from the URI's value",
                {**wit, "got": getattr(cfg, key)},
            )
    return True


EDIT_KINDS = ["change", "delete", "clear", "add"]


def gen_edits(rng: random.Random, flat: dict[str, str], scheme: str) -> list[list[Any]]:
    """what a caller does with a parameter map that is its own: derive a neighbour's map (other values), drop keys,
    empty it, add keys - 1..3 edits (recorded in the witness so that replay can redo them)"""
    keys = sorted(flat)
    out: list[list[Any]] = []
    for _ in range(rng.randint(1, 3)):
        k = rng.choice(EDIT_KINDS) if keys else "add"
        if k == "change":
            key = rng.choice(keys)
            limits = {name: mx for name, _, mx in SCHEME_PARAMS.get(scheme, [])}
            v = spell(rng, rng.randint(0, limits[key])) if key in limits and rng.random() < 0.8 else rng.choice(["zz", "", "-1", "true"])
            if v == flat[key]:
                v += "0"
            out.append(["change", key, v])
        elif k == "delete":
            out.append(["delete", rng.choice(keys)])
        elif k == "clear":
            out.append(["clear"])
        else:
            out.append(["add", rng.choice(["tags", "is_fd", "x_note", "dst_addr2"]), rng.choice(["1", "true", "0x7f"])])
    return out


def apply_edits(d: dict[str, Any], edits: list[list[Any]]) -> None:
    for e in edits:
        if e[0] == "change":
            d[e[1]] = e[2]
        elif e[0] == "delete":
            d.pop(e[1], None)
        elif e[0] == "clear":
            d.clear()
        else:
            d[e[1]] = e[2]


def case_hostport(ctx: Any, rng: random.Random) -> None:
    from gallia.net import join_host_port, split_host_port

    kind, host = gen_host(rng)
    port = gen_port(rng)
    ctx.case(("hostport", host, port))
    ctx.reach("hostport.roundtrip")
    reach_zone(ctx, kind, host)
    if kind == "ipv6z":
        ctx.reach("hostport.ipv6z.bare" if port is None else "hostport.ipv6z+port")
    case = {"host": host, "port": port}
    if port is None:
        # bare host with and without a default
        for default in (None, 4711):
            try:
                h, p = split_host_port(host, default)
            except Exception as e:
                ctx.violation(f"hostport/split-raises/{kind}", "split_host_port raises on a bare host", {"kind": "hostport", "case": case, "error": repr(e)})
                return
            if not hosts_equal(kind, host, h) or p != default:
                ctx.violation(f"hostport/bare-host/{kind}", "bare host does not split to (host, default)", {"kind": "hostport", "case": case, "got": [h, p], "default": default})
        return
    try:
        joined = join_host_port(host, port)
        h, p = split_host_port(joined, rng.choice([None, 4711]))
    except Exception as e:
        ctx.violation(f"hostport/roundtrip-raises/{kind}/{type(e).__name__}", "split(join(host, port)) raises", {"kind": "hostport", "case": case, "error": repr(e)})
        return
    case["joined"] = joined
    if not hosts_equal(kind, host, h):
        ctx.violation(f"hostport/host-differs/{kind}", "split(join(host, port)) returns another host", {"kind": "hostport", "case": case, "got": [h, p]})
    if p != port:
        ctx.violation(f"hostport/port-differs/{kind}/{'port0' if port == 0 else 'other'}", "split(join(host, port)) returns another port", {"kind": "hostport", "case": case, "got": [h, p]})


# ---- ranges ---------------------------------------------------------------------------------
def gen_items(rng: random.Random, ctx: Any, hi: int = 0x200) -> tuple[str, set[int], bool]:
    """comma joined items, their union, whether a reversed range is present"""
    parts: list[str] = []
    den: set[int] = set()
    rev = False
    for _ in range(rng.randint(1, 6)):
        k = rng.randrange(10)
        base = rng.choice([0, 1, 0x10, 0x7F, 0xFF, hi, rng.randint(0, hi)])
        if k < 4:
            parts.append(spell(rng, base, ctx))
            den.add(base)
        elif k < 8:
            ln = rng.choice([0, 1, 2, 31, rng.randint(0, 64)])
            parts.append(f"{spell(rng, base, ctx)}-{spell(rng, base + ln, ctx)}")
            den.update(range(base, base + ln + 1))
        elif k == 8 and parts:
            parts.append(parts[rng.randrange(len(parts))])  # repeat (overlap)
        else:
            ln = rng.randint(1, 5)
            parts.append(f"{spell(rng, base + ln, ctx)}-{spell(rng, base, ctx)}")
            rev = True
    return ",".join(parts), den, rev


INVALID_1D = ["x", "1,,2", "1,", ",1", "1-2-3", "1-", "-", "0x", "1;2", "1..3", "--1", "1-2,a", "0b2", "09", "1 2-"]


def case_range1d(ctx: Any, rng: random.Random) -> None:
    import pydantic
    from gallia.command.config import Ranges
    from gallia.utils import unravel

    if rng.random() < 0.12:
        s = rng.choice(INVALID_1D)
        if rng.random() < 0.5:
            good, _, _ = gen_items(rng, None)
            s = rng.choice([f"{good},{s}", f"{s},{good}"])
        ctx.case(("r1-invalid", s))
        ctx.reach("range1d.invalid")
        try:
            got = unravel(s)
        except Exception:
            return
        ctx.violation("range1d/accepts-invalid", "unravel accepts a string outside the range grammar", {"kind": "range1d-invalid", "input": s, "got": got[:50]})
        return
    expr, den, rev = gen_items(rng, ctx)
    ctx.case(("r1", expr))
    ctx.reach("range1d.valid")
    ctx.sample({"kind": "range1d", "input": expr, "denotes_n": len(den)})
    want = sorted(den)
    try:
        got = unravel(expr)
    except Exception as e:
        if rev and isinstance(e, ValueError):
            ctx.reach("range1d.reversed_rejected")
            return
        ctx.violation(f"range1d/raises/{type(e).__name__}", "unravel raises on a valid range expression", {"kind": "range1d", "input": expr, "error": repr(e)})
        return
    if got != want:
        ctx.violation("range1d/wrong-set", "unravel result is not the sorted union", {"kind": "range1d", "input": expr, "got": got[:80], "want": want[:80]})
    # the typed field: whitespace separated string and list-of-strings forms
    ta = pydantic.TypeAdapter(Ranges)
    chunks = expr.split(",")
    # items separated by commas or by white space (the documented forms), never by both at once
    ws = "".join(c + rng.choice([" ", "  ", ",", "\t"]) for c in chunks[:-1]) + chunks[-1]
    # "ints": the value as a config file / a default hands it over (already a list of integers) must pass through unchanged
    for form, val in (("str", ws), ("list", chunks), ("ints", list(want))):
        ctx.reach(f"ranges_type.{form}")
        try:
            g2 = ta.validate_python(val)
        except Exception as e:
            if rev:
                continue
            ctx.violation(f"ranges_type/{form}/raises", "Ranges field rejects a valid expression", {"kind": "ranges_type", "input": val, "error": repr(e)[:300]})
            continue
        if g2 != want:
            ctx.violation(f"ranges_type/{form}/wrong-set", "Ranges field value is not the sorted union", {"kind": "ranges_type", "input": val, "got": g2[:80], "want": want[:80]})


INVALID_2D = ["1:2:3", "x", "1:x", "x:1", "1:2-", "1-:2", "1;2", "1:2,,3"]


def case_range2d(ctx: Any, rng: random.Random) -> None:
    import pydantic
    from gallia.command.config import Ranges2D
    from gallia.utils import unravel_2d

    if rng.random() < 0.1:
        s = rng.choice(INVALID_2D)
        if rng.random() < 0.5:
            s = rng.choice([f"1:2 {s}", f"{s} 3"])
        ctx.case(("r2-invalid", s))
        ctx.reach("range2d.invalid")
        try:
            got = unravel_2d(s)
        except Exception:
            return
        ctx.violation("range2d/accepts-invalid", "unravel_2d accepts a string outside the grammar", {"kind": "range2d-invalid", "input": s, "got": got})
        return
    entries: list[str] = []
    den: dict[int, set[int] | None] = {}
    rev_any = False
    bare = False
    for _ in range(rng.randint(1, 5)):
        outer_s, outer, rev1 = gen_items(rng, ctx, hi=0x7F)
        rev_any |= rev1
        if rng.random() < 0.25:
            entries.append(outer_s)
            bare = True
            for x in outer:
                den[x] = None
        else:
            inner_s, inner, rev2 = gen_items(rng, ctx)
            rev_any |= rev2
            entries.append(f"{outer_s}:{inner_s}")
            for x in outer:
                if x not in den:
                    den[x] = set()
                cur = den[x]
                if cur is not None:
                    cur.update(inner)
    if bare:
        ctx.reach("range2d.bare_outer")
    sep = [rng.choice([" ", "  ", "   "]) for _ in entries]
    expr = "".join(e + s for e, s in zip(entries, sep))[: -len(sep[-1])]
    ctx.case(("r2", expr))
    ctx.reach("range2d.valid")
    ctx.sample({"kind": "range2d", "input": expr, "outer_keys": len(den)})
    want = {k: (None if den[k] is None else sorted(den[k])) for k in sorted(den)}  # type: ignore[arg-type]
    try:
        got = unravel_2d(expr)
    except Exception as e:
        if rev_any and isinstance(e, ValueError):
            return
        ctx.violation(f"range2d/raises/{type(e).__name__}", "unravel_2d raises on a valid expression", {"kind": "range2d", "input": expr, "error": repr(e)})
        return
    if got != want or list(got) != list(want):
        ctx.violation("range2d/wrong-map" + ("/bare-outer" if bare else ""), "unravel_2d result differs from the denoted map", {"kind": "range2d", "input": expr, "got": repr(got)[:400], "want": repr(want)[:400]})
    ta = pydantic.TypeAdapter(Ranges2D)
    # "map": the value as a config file / a default hands it over (already a mapping) must pass through unchanged
    for form, val in (("str", expr), ("list", entries), ("map", dict(want))):
        try:
            g2 = ta.validate_python(val)
        except Exception as e:
            if rev_any:
                continue
            ctx.violation(f"ranges2d_type/{form}/raises", "Ranges2D field rejects a valid expression", {"kind": "ranges2d_type", "input": val, "error": repr(e)[:300]})
            continue
        if g2 != want:
            ctx.violation(f"ranges2d_type/{form}/wrong-map", "Ranges2D field value differs from the denoted map", {"kind": "ranges2d_type", "input": val, "got": repr(g2)[:400]})


def case_autoint(ctx: Any, rng: random.Random) -> None:
    from gallia.utils import auto_int

    v = rng.choice([0, 1, 7, 8, 255, 256, 65535, 2**32 - 1, rng.getrandbits(rng.randint(1, 40))])
    s = spell(rng, v, ctx)
    ctx.case(("int", s))
    try:
        got = auto_int(s)
    except Exception as e:
        ctx.violation("autoint/raises", "auto_int rejects a valid spelling", {"kind": "autoint", "input": s, "error": repr(e)})
        return
    if got != v:
        ctx.violation("autoint/wrong-value", "auto_int returns another number", {"kind": "autoint", "input": s, "got": got, "want": v})


def run(ctx: Any, params: dict[str, Any]) -> None:
    rng = ctx.rng
    fns = [case_uri, case_uri, case_hostport, case_range1d, case_range1d, case_range2d, case_autoint]
    for i in range(params["n"]):
        fns[i % len(fns)](ctx, rng)
        if ctx.out_of_time():
            break
    if params["part"] == 0:
        # the empty and blank expressions
        from gallia.utils import unravel, unravel_2d

        for s in ("", " ", "   "):
            ctx.case(("r1-empty", s), nontrivial=False)
            if unravel(s) != []:
                ctx.violation("range1d/empty", "empty expression does not denote the empty list", {"kind": "range1d", "input": s})
        ctx.case(("r2-empty", ""), nontrivial=False)
        try:
            if unravel_2d("") != {}:
                ctx.violation("range2d/empty", "empty 2-D expression does not denote the empty map", {"kind": "range2d", "input": ""})
        except Exception as e:
            ctx.violation("range2d/empty-raises", "empty 2-D expression raises", {"kind": "range2d", "input": "", "error": repr(e)})


def replay(ctx: Any, witness: dict[str, Any]) -> None:
    """Re-run the generator family of the witness with many seeds is not needed: the witness carries the
    literal input, re-evaluate it."""
    from gallia.net import join_host_port, split_host_port
    from gallia.transports.base import TargetURI
    from gallia.utils import unravel, unravel_2d

    k = witness.get("kind")
    try:
        if k == "uri":
            c = witness["case"]
            u = TargetURI(str(TargetURI.from_parts(c["scheme"], c["host"], c["port"], c["args"])))
            if u.port != c["port"] or u.qs_flat != {a: str(b) for a, b in c["args"].items()} or not hosts_equal(host_kind(c["host"]), c["host"], u.hostname):
                ctx.violation("replay/uri", "URI round trip differs", witness)
            if "edits" in witness:
                want = {a: str(b) for a, b in c["args"].items()}
                apply_edits(u.qs_flat, witness["edits"])
                if str(u) != c.get("uri", str(u)) or u.qs_flat != want:
                    ctx.violation("replay/uri-second-use", "the same URI object denotes something else at its second use", witness)
        elif k == "hostport":
            c = witness["case"]
            got = split_host_port(join_host_port(c["host"], c["port"]))
            if got[1] != c["port"] or not hosts_equal(host_kind(c["host"]), c["host"], got[0]):
                ctx.violation("replay/hostport", f"split(join()) = {got}", witness)
        elif k == "range1d":
            if "want" in witness and unravel(witness["input"]) != witness["want"]:
                ctx.violation("replay/range1d", "unravel differs", witness)
        elif k == "range2d":
            print(unravel_2d(witness["input"]))
    except Exception as e:
        ctx.violation("replay/raises", repr(e), witness)
