"""C16 A virtual ECU is fully determined by its seed and arguments (DESIGN.md section 3, C16).

Runtime monitoring across interpreter processes.  The real RandomUDSServer is built in child
interpreters (`python -m vf.checks.c16 --child spec.json out.json`) that differ in PYTHONHASHSEED,
import order, construction path (direct / the CLI's config object), prior use of the global `random`
module, a shifted wall clock, the pace at which the history is played (a clock that moves between two requests, every idle
period below the inactivity limit) and in whether another virtual ECU (other seed) was set up and asked the same
history in the same interpreter before.  Every child reports the model (`RandomUDSServer.services` after
`setup()`) and the transcript of `UDSServerTransport.handle_request` over one request history; the
parent compares them byte by byte (security seeds masked).  One more child per configuration walks
the session graph through real `10 xx` requests.

Parent side never imports gallia: every observation about the code under test comes from a child.
"""

from __future__ import annotations

import json
import os
import random
import subprocess
import sys
import time
from concurrent.futures import ThreadPoolExecutor, as_completed
from pathlib import Path
from typing import Any

PROPERTY = "C16"
LEVEL = "exploration"
ENGINE = "subprocess-lifecycle"
TECHNIQUE = (
    "runtime monitoring across processes: the real RandomUDSServer is constructed in separate interpreter processes that "
    "differ in PYTHONHASHSEED, import order, construction path, global-random history, wall-clock offset, the pace of the requests (in two "
    "of the processes the clock moves by an idle period of at most 5.5 s before every request - one fixed period, or periods drawn per request - "
    "while the others play the history without idle time; the histories contain runs of requests whose positive response is suppressed, "
    "in non-default sessions, that last longer than the 10 s inactivity limit) and in whether another "
    "virtual ECU with a different seed was constructed, set up and exercised in the same interpreter before; the dumped "
    "model and the handle_request transcript over a generated, state-carrying request history are compared byte by byte "
    "(security seeds masked); the masked seeds themselves are compared for freshness: seeds answered to the same request in two "
    "processes and to successive requestSeed requests of one history must not repeat; the session graph is walked with real "
    "DiagnosticSessionControl requests, also for further configurations per configuration whose list arguments name entries more than once; "
    "in part of the processes the same server object is shut down and started again (teardown(), setup()) and its second model and its "
    "answers to the same history are compared with those of its first life"
)
LEVEL_TEXT = (
    "Exploration: 16 (quick) / 304 (thorough) configurations (+ 2 boundary-seed and 3 focus configurations in both tiers) = seed x randomness parameters (probabilities 0, 0.05, 0.5, 1; "
    "mandatory/optional lists empty, default, full, random subsets) each run in 4 (quick) / 6 (thorough) process environments "
    "plus one walk process, and in both tiers two boundary-seed configurations (seed 0 as int and as the string '0') that are "
    "always taken through the CLI/config constructor path in three further processes, over histories of 30..300 requests built from the observed model (session changes, resets, "
    "security access with correct/wrong keys, reads/writes/routines, every-service sweeps, reference-generated valid "
    "requests, random bytes; between steps in a non-default session with probability 0.2 an idling tester: 2..7 keep-alives 3E 80 / 10 <session|80> "
    "followed by 22 F1 86 and a request for a service or identifier of that session; in the focus configurations - ReadDTCInformation, SecurityAccess and the identifier services mandatory and "
    "answering positively - additionally requestSeed directly followed by a request answered from stateful_rng, and 19 02 <mask> in every session).  "
    "Every history with SecurityAccess in the model yields pairs of handed-out seeds (same request in two processes; successive requestSeed "
    "requests in one process) that are checked for freshness.  Per configuration 6 further configurations (own seeds; mandatory/optional session and service lists with repeated entries: a b a, the list twice, "
    "the list and its reverse, random repeats, adjacent pairs, the default session repeated; p_session 0, 0.02, 0.5 or the configuration's own (at most 0.05); a third through the CLI/config path) are "
    "built in the walk process and judged for mandatory parts, reachability and return like the configuration itself.  In 2 (quick) / 3 (thorough) of the processes "
    "of every configuration the server object is restarted after the history (left in the default session by 10 01, teardown(), setup()) and asked the same history again; "
    "the walk process restarts its ECU without having asked it anything.  "
    "Held means: no difference (and no repeated security seed) was observed on these configurations, histories and environments."
)
LEVEL_NOTE = (
    "Trusted: the comparison/masking logic and the BFS in vf/checks/c16.py; the request generators in vf/gen_uds.py. "
    "Environments differ by constant clock offsets and by idle periods below the inactivity limit (a pause of 10 s or more is an input of "
    "the ECU - it falls back to its default session - and is not part of the workload)."
)
RULE = (
    "case = (seed, randomness parameters, behaviour flags, request history, process environment); configurations are "
    "8 fixed corner configurations (all defaults twice with different seeds, all probabilities 0, everything full with "
    "probability 1, all four lists empty, all 0.5, all sessions mandatory with p_session 0, DiagnosticSessionControl not "
    "mandatory) plus two fixed boundary-seed configurations (seed 0 / '0', CLI constructor path forced) plus seeded random draws (each probability from {default,0,0.05,0.5,1}, each list from "
    "{default,empty,full,random subset}); seeds are ints (0,1,-1,2^31-1,2^63-1,2^64+3,random 63 bit) and strings; histories "
    "are generated from the model the walk process observed; non-trivial = the transcript shows at least 3 distinct "
    "replies; distinct = distinct (configuration, history, environment); three fixed focus configurations (and a quarter of the random "
    "draws) make 10/3E/27/19/22/2E/31 mandatory with p_sub_function >= 0.2, p_identifier and p_correct_payload_format >= 0.5; two of the "
    "environments of every configuration first run the whole history (plus the history's stateful requests in up to 12 of its own sessions) "
    "against another RandomUDSServer with a different seed in the same interpreter; freshness of security seeds: per configuration, "
    "pairs of seeds of >= 2 bytes each (same history index in two processes / successive seeds of one process) - at least 8 pairs of "
    "one kind that are ALL equal, or any equal pair of seeds of >= 8 bytes, is a verdict; siblings = per configuration 6 (seed, arguments) "
    "pairs derived from it by naming 2..10 non-default mandatory sessions (the configuration's own ones first) more than once in six patterns "
    "(and, with probability 0.3-0.4 each, repeating entries of the other three lists), judged structurally only (model dump + walks in one "
    "process); restart = the object under test of a process is set up a second time after teardown(): second model == first model always, "
    "second transcript == first transcript when the last reply of the first life was 50 01 to 10 01 (or nothing had been asked); "
    "request-pace = the third and fourth (thorough: also the fifth) environment of every configuration advance time.time/time.monotonic by an idle period before every request "
    "(fixed: one of 2.6, 3.5, 4, 5, 5.5 s; drawn: uniform in [lo, hi] with lo in {0,1,2}, hi in {4,5,5.5}, 30% of the draws 0 / hi / uniform in [0, hi]); "
    "a child whose real gap between two requests exceeds 4 s is discarded, so no pause ever reaches 9.5 s"
)
ASSUMPTIONS = [
    "security-access seeds (positive replies 67 <odd> ...) are exempt including their length (an empty seed occurs in about 6% of the "
    "requests); the reply to a sendKey-shaped request (27 <even> ...) is compared only when both processes agree on the pending-seed "
    "situation it meets (no pending seed / key equals seed / key differs; for harness-computed keys also whether the key is empty), "
    "because that situation is a function of the fresh seeds; no other reply depends on it",
    "'deliberately fresh' is read as: a seed is newly drawn for every requestSeed answer, so it is neither a function of (ECU seed, arguments, "
    "history) nor a repetition of the seed handed out before.  Only seeds of >= 2 bytes are paired (empty and one-byte seeds repeat by chance); "
    "a verdict needs >= 8 pairs of one kind in one configuration that are all equal (chance <= 2^-128 for uniformly drawn bytes, <= 2^-64 if only one "
    "byte per seed were random) or one equal pair of seeds of >= 8 bytes (<= 2^-64 per pair); no particular length, distribution or entropy source is demanded",
    "sessions are taken from 1..0x7E (RandomUDSServer.randomize indexes a 0x7F-element table; session 0x7F makes setup() raise IndexError and is not part of the workload)",
    "'at different times' is exercised as constant offsets of time.time/time.monotonic (+1e9 s, -1.7e9 s, +3e9 s) installed before gallia is imported, "
    "and as a clock that moves between two requests (the same history played at another pace); every pause between two requests stays below the 10 s "
    "inactivity reset (idle period <= 5.5 s; children with a real gap > 4 s are discarded as harness noise)",
    "the virtual ECU's fall-back to the default session after 10 s of inactivity is read as: 10 s without any request.  A tester that sends a request at "
    "least every 9.5 s - with or without an answer, e.g. the TesterPresent keep-alive 3E 80 whose purpose this is - is never inactive, so the pace of "
    "such a history is no input and the answers must be those of the history played without idle time",
    "the idle periods end with the first request on which handle_request raises (only seen with non-default behaviour flags, which let the ECU enter a "
    "session outside its model): what a failed ECU does over time is not part of the statement, the rest of the history is played without idle time "
    "and compared as before",
    "PYTHONHASHSEED=random is exercised literally and additionally through parent-chosen numeric values (reproducible)",
    "the construction-path dimension compares RandomUDSServer(seed, RandomnessParameters(**args), Behavior(**flags)) with "
    "RngVirtualECU(RngVirtualECUConfig(target, seed=str(seed), **args as CLI strings))._server(); non-numeric string seeds only take the direct path; "
    "for the boundary seed 0 the config object is additionally built with the int 0 (constructor path 'cli-int')",
    "'can return to the default session' accepts any DiagnosticSessionControl path of the model or an offered ECUReset; "
    "the inactivity timeout is not counted as a way back",
    "reachability walks are judged only under default behaviour flags (the statement quantifies over randomness parameters)",
    "'in different processes' includes processes that hold more than one virtual ECU: what another RandomUDSServer instance (other seed, same "
    "arguments) was asked before in the same interpreter must not change the model or any answer of the ECU under test",
    "list arguments that name an entry more than once (--mandatory-sessions 2 3 2) are arguments like any other: RandomnessParameters and the "
    "command line accept them and the statement quantifies over all mandatory/optional lists; nothing is demanded about how the model for "
    "[2, 3, 2] relates to the model for [2, 3] - only that mandatory parts are present and every offered session is reachable and can return",
    "'started ... at different times' includes the same server object started again: setup() -> [requests] -> teardown() -> setup() is an ECU "
    "started with the same seed and the same arguments, so its model must be the one of its first life.  Its answers are compared with the "
    "first life only when the tester left it in the default session (last reply 50 01 to 10 01) or had asked nothing, because what an ECU "
    "state (session, security level, pending seed) does across a restart is not part of the statement",
]
EXHAUSTIVE = {"quick": False, "thorough": False}
EXHAUSTIVE_NOTE = "per configuration every offered session is walked (exhaustive over the sessions of the observed model)"

ROOT = Path(__file__).resolve().parent.parent.parent
PY = "/venv/bin/python"
DIMS = ["PYTHONHASHSEED", "import-order", "constructor-path", "global-random", "wall-clock", "other-ecu-in-same-process", "request-pace"]
ENV_FIELD = {"PYTHONHASHSEED": "hashseed", "import-order": "imp", "constructor-path": "ctor", "global-random": "grand", "wall-clock": "clock",
             "other-ecu-in-same-process": "other", "request-pace": "pace"}
# services whose answers RandomUDSServer derives from stateful_rng (seed, session, request): any other input shows there
STATEFUL_SIDS = (0x22, 0x2E, 0x2F, 0x31, 0x14, 0x19)
PROBS = ["p_session", "p_service", "p_sub_function", "p_identifier", "p_correct_payload_format", "p_dtc_status_mask"]
BEHAVIOR_FLAGS = [
    "default_response_if_service_not_supported", "default_response_if_missing_sub_function",
    "default_response_if_sub_function_not_supported", "default_response_if_incorrect_format",
    "default_response_if_session_change", "default_response_if_session_read", "default_response_if_tester_present",
    "default_response_if_none", "default_response_if_suppress",
]
# UDSIsoServices values (gallia.services.uds.core.constants); the child verifies the list against the real enum
ALL_SERVICES = [
    0x01, 0x02, 0x03, 0x04, 0x05, 0x06, 0x07, 0x08, 0x09, 0x0A, 0x10, 0x11, 0x14, 0x19, 0x22, 0x23, 0x24, 0x27, 0x28,
    0x29, 0x2A, 0x2C, 0x2E, 0x2F, 0x31, 0x34, 0x35, 0x36, 0x37, 0x38, 0x3D, 0x3E, 0x83, 0x84, 0x85, 0x86, 0x87, 0x7F,
]
ALL_SESSIONS = list(range(1, 0x7F))
DSC, RESET, SA = 0x10, 0x11, 0x27
MAX_GAP = 4.0
# "request-pace": in some processes the clock moves between two requests (the tester idles on the bus).  The virtual ECU falls back to
# its default session after INACTIVITY_LIMIT seconds without a request; a single idle period stays below MAX_PACE_GAP, so that idle
# period plus the tolerated real gap (MAX_GAP) never reaches the limit and the pace is no input of the ECU.
INACTIVITY_LIMIT = 10.0
MAX_PACE_GAP = 5.5
# The tester of a paced process idles only as long as handle_request has not raised: an ECU that raised (survival is C14's business;
# here it needs non-default behaviour flags: a DiagnosticSessionControl to a session outside the model is accepted and every later
# request fails with "Virtual ECU in unsupported session") is in a failed state, and every real transport closes the connection.
# Set to True to keep idling: on /repo bf4f29f the check then reports transcript/differs-across/request-pace/... because requests on
# which respond() raises do not refresh UDSServerTransport.last_time_active - the wedged ECU falls back to its default session 10 s
# after the last request that did not raise although requests keep arriving, the one asked without idle time stays wedged.
PACE_AFTER_EXCEPTION = False
assert MAX_GAP + MAX_PACE_GAP < INACTIVITY_LIMIT
# one root cause, one key: the session graph is generated independently of whether DiagnosticSessionControl ends up among the
# services of a session; when the user takes it out of mandatory_services, sessions of the model become unreachable / dead ends
NODSC_KEY = "model/session-graph-not-usable/dsc-not-mandatory"
# The statement quantifies over mandatory lists "incl. empty", so this is reported.  Set to False to only count it
# (reach counters walk.unreachable-in-model/dsc-not-mandatory, walk.no-return/dsc-not-mandatory).
DSC_NOT_MANDATORY_IS_VIOLATION = True


# =================================================================================================
# child: runs inside a fresh interpreter, imports the monitored tree
# =================================================================================================
def child_main(spec_file: str, out_file: str) -> int:
    spec = json.loads(Path(spec_file).read_text())
    env = spec["env"]
    import faulthandler

    faulthandler.dump_traceback_later(float(spec.get("hang_after", 50)), exit=True)
    import time as _time

    real_time, real_mono, real_time_ns, real_mono_ns = _time.time, _time.monotonic, _time.time_ns, _time.monotonic_ns
    perf = _time.perf_counter
    off = float(env.get("clock") or 0)
    pace = env.get("pace")
    # virt[0]: idle time (seconds) the tester of this process has spent between its requests so far.  With "pace" the clock of this
    # process moves by a gap below the inactivity limit before every request (drive()); without it the clock only has its offset.
    virt = [0.0]
    if off or pace:
        # installed before anything of gallia (or asyncio) is imported; constant offsets keep every difference intact
        _time.time = lambda: real_time() + off + virt[0]
        _time.monotonic = lambda: real_mono() + off + virt[0]
        _time.time_ns = lambda: real_time_ns() + int((off + virt[0]) * 1e9)
        _time.monotonic_ns = lambda: real_mono_ns() + int((off + virt[0]) * 1e9)
    import random as _random

    pace_rng = _random.Random(f"C16/pace/{pace.get('seed')}") if pace else None  # (a private instance: the global generator is untouched)

    def idle() -> None:
        """The tester idles before its next request: the clock moves by a gap that stays below MAX_PACE_GAP."""
        if not pace or pace_rng is None:
            return
        if pace["kind"] == "fixed":
            g = float(pace["gap"])
        else:
            g = pace_rng.choice([0.0, pace_rng.uniform(0.0, float(pace["hi"])), float(pace["hi"])]) if pace_rng.random() < 0.3 else pace_rng.uniform(float(pace["lo"]), float(pace["hi"]))
        virt[0] += min(max(g, 0.0), MAX_PACE_GAP)

    grand = env.get("grand")
    if grand:
        _random.seed(grand["seed"])
        for _ in range(int(grand["calls"])):
            _random.random()

    from vf import runner

    runner.bootstrap_path()
    out: dict[str, Any] = {"ok": False, "stage": "import", "hash_probe": hash("c16-probe"), "hashseed_env": os.environ.get("PYTHONHASHSEED")}

    def finish() -> int:
        Path(out_file).write_text(json.dumps(out))
        return 0

    if env.get("imp") == "tree":
        import gallia.command  # noqa: F401  (before gallia.plugins.plugin: circular import otherwise)
        import gallia.commands  # noqa: F401
        from gallia.plugins.plugin import load_commands

        load_commands()
        import gallia.services.uds.server as S
    else:
        import gallia.services.uds.server as S
    err = runner.assert_tree()
    if err:
        out["error"] = "wrong_tree: " + err
        return finish()
    # the order in which gallia's modules were initialised (differs between the two import orders)
    out["import_sig"] = ",".join(x for x in sys.modules if x.startswith("gallia"))
    import asyncio

    from gallia.services.uds.core.constants import UDSIsoServices
    from gallia.transports import TargetURI

    out["server_clock_minus_real"] = S.time() - real_time()
    out["enum_services"] = sorted(int(s) for s in UDSIsoServices)
    args = spec["args"]
    behavior = spec.get("behavior") or {}
    seed = spec["seed"]
    target = "tcp://127.0.0.1:20162"

    def construct(seed: Any = seed, args: dict[str, Any] = args, ctor: Any = env.get("ctor")) -> Any:
        if grand:
            for _ in range(int(grand["calls"]) % 7 + 1):
                _random.random()
        if ctor in ("cli", "cli-int"):
            from gallia.commands.script.vecu import RngVirtualECU, RngVirtualECUConfig

            cli: dict[str, Any] = {}
            for k, v in args.items():
                if k.endswith("_sessions"):
                    cli[k] = [(f"{x:#x}" if i % 2 else str(x)) for i, x in enumerate(v)]
                elif k.endswith("_services"):
                    cli[k] = [(UDSIsoServices(x).name if i % 2 else f"{x:#x}") for i, x in enumerate(v)]
                else:
                    cli[k] = str(v)
            for k, v in behavior.items():
                cli[k] = "true" if v else "false"
            # "cli": the seed as the command line delivers it (a string); "cli-int": as a config file / API caller gives it
            cfg = RngVirtualECUConfig(target=target, seed=(int(seed) if ctor == "cli-int" else str(seed)), **cli)
            return RngVirtualECU(cfg)._server()
        return S.RandomUDSServer(seed, S.RandomUDSServer.RandomnessParameters(**args), S.RandomUDSServer.Behavior(**behavior))

    def dump_model(server: Any) -> tuple[dict[str, Any], list[Any]]:
        sv = server.services
        canon = {
            str(int(sess)): {str(int(sid)): (None if sf is None else sorted(int(x) for x in sf)) for sid, sf in svc.items()}
            for sess, svc in sv.items()
        }
        raw = [[int(sess), [[int(sid), None if sf is None else [int(x) for x in sf]] for sid, sf in svc.items()]] for sess, svc in sv.items()]
        return canon, raw

    async def drive(server: Any, history: list[str], progress: bool) -> dict[str, Any]:
        """One request history against one server; the transcript with security seeds masked."""
        transport = S.UDSServerTransport(server, TargetURI(target))
        sessions: list[int] = []
        transcript: list[list[Any]] = []
        seeds: list[str] = []
        last_seed: bytes | None = None
        masked = 0
        max_gap = 0.0
        vstart = virt[0]
        vclock: list[float] = []
        raised = False  # handle_request has raised in this drive (every real transport closes the connection then)
        t_prev = perf()
        for i, item in enumerate(history):
            if progress:
                out["progress"] = i
            if not raised or spec.get("pace_after_exception"):
                idle()
            vclock.append(virt[0])
            if item.startswith("key:"):
                req = bytes([SA, int(item[4:], 16)]) + (last_seed or b"")
            elif item.startswith("badkey:"):
                req = bytes([SA, int(item[7:], 16)]) + (last_seed or b"") + b"\x5a"
            else:
                req = bytes.fromhex(item)
            if grand:
                _random.random()
            pre = getattr(server.state, "last_sa_response", None)
            sessions.append(int(server.state.session))
            # dep: everything about this reply that may legitimately depend on a fresh seed.  A sendKey that directly
            # follows its seed depends on "key equals seed"; a key token additionally carries the seed (and its length,
            # possibly zero) in the request itself.
            dep = None
            token = not item[:1].isdigit() and item.startswith(("key:", "badkey:"))
            if len(req) >= 2 and req[0] == SA and (req[1] & 0x7F) % 2 == 0:
                follows = pre is not None and (req[1] & 0x7F) == pre.security_access_type + 1
                if follows:
                    dep = "eq" if req[2:] == pre.security_seed else "ne"
                if token:
                    dep = (dep or "nosa") + ("/empty" if len(req) == 2 else "/nonempty")
            now = perf()
            max_gap = max(max_gap, now - t_prev)
            try:
                rep, _ = await transport.handle_request(req)
            except Exception as e:  # survival is C14's business; here only "same in every process"
                transcript.append([f"EXC:{type(e).__name__}", dep])
                raised = True
                t_prev = perf()
                continue
            t_prev = perf()
            if rep is None:
                transcript.append(["none", dep])
            elif len(rep) >= 2 and rep[0] == 0x67 and rep[1] % 2 == 1:
                last_seed = bytes(rep[2:])
                seeds.append(last_seed.hex())
                masked += 1
                transcript.append([bytes(rep[:2]).hex() + "**", dep])
            else:
                transcript.append([bytes(rep).hex(), dep])
        return {"transcript": transcript, "seeds": seeds, "masked": masked, "max_gap": max_gap, "sessions": sessions, "vstart": vstart, "vclock": vclock}

    async def exercise_other(other: dict[str, Any]) -> dict[str, Any]:
        """Environment dimension: another virtual ECU (other seed, same arguments) lives in this interpreter and was set up
        and asked the same history before the ECU under test exists.  Returns what it was asked, for the reach counters."""
        info: dict[str, Any] = {"seed": repr(other["seed"]), "requests": 0, "positive": [], "error": None}
        try:
            osrv = construct(other["seed"])
            await osrv.setup()
        except Exception as e:
            info["error"] = f"{type(e).__name__}: {str(e)[:200]}"
            return info
        keep_alive.append(osrv)  # both ECUs exist side by side, as in a process that simulates a small network
        history = spec.get("history") or []
        d = await drive(osrv, history, False)
        positive = {(sess, item) for sess, item, (r, _) in zip(d["sessions"], history, d["transcript"]) if r[:2] not in ("7f", "no", "EX")}
        n = len(history)
        # the same stateful requests once more in every session the other ECU can enter (its model differs from the one
        # the history was generated from, so the history alone mostly meets it in the default session)
        om = {int(sess): {int(sid): sf for sid, sf in svc.items()} for sess, svc in osrv.services.items()}
        probes = list(dict.fromkeys(x for x in history if x[:1].isdigit() and len(x) >= 2 and int(x[:2], 16) in STATEFUL_SIDS))[:40]
        paths: dict[int, list[int]] = {1: [1]} if 1 in om else {}
        todo = list(paths)
        while todo:
            a = todo.pop(0)
            for b in om.get(a, {}).get(DSC) or []:
                if b in om and b not in paths:
                    paths[b] = paths[a] + [b]
                    todo.append(b)
        for sess in sorted(paths)[:12]:
            sweep = [f"10{hop:02x}" for hop in paths[sess][1:]] + probes + ["1001"]
            d2 = await drive(osrv, sweep, False)
            n += len(sweep)
            positive |= {(ss, item) for ss, item, (r, _) in zip(d2["sessions"], sweep, d2["transcript"]) if r[:2] not in ("7f", "no", "EX")}
        info["requests"] = n
        info["positive"] = sorted([ss, item] for ss, item in positive if item[:1].isdigit() and int(item[:2], 16) in STATEFUL_SIDS + (SA, RESET))
        info["sessions"] = len(om)
        return info

    async def walk_model(canon: dict[str, Any], make: Any, fresh_budget: int, shared: Any = None) -> list[dict[str, Any]]:
        """Every session of the dumped model: driven from the default session along the offered DiagnosticSessionControl
        sub-functions and back, with real 10 xx requests (the first fresh_budget walks on servers of their own from make(),
        the others on one shared server that is put back into its initial state before every walk)."""
        M = {int(s): {int(k): v for k, v in d.items()} for s, d in canon.items()}

        def edges(a: int) -> list[int]:
            return [b for b in (M.get(a, {}).get(DSC) or []) if b in M]

        def bfs(src: int) -> dict[int, list[int]]:
            paths = {src: [src]}
            todo = [src]
            while todo:
                a = todo.pop(0)
                for b in edges(a):
                    if b not in paths:
                        paths[b] = paths[a] + [b]
                        todo.append(b)
            return paths

        from_default = bfs(1) if 1 in M else {}
        walks = []
        for s in sorted(M):
            w: dict[str, Any] = {"session": s, "path": from_default.get(s), "reached": None, "back": None, "back_path": None}
            walks.append(w)
            if s not in from_default:
                continue
            if fresh_budget > 0:
                fresh_budget -= 1
                srv = make()
                await srv.setup()
                w["fresh_server"] = True
            else:
                if shared is None:
                    shared = make()
                    await shared.setup()
                srv = shared
                srv.state.reset()
                w["fresh_server"] = False
            tr = S.UDSServerTransport(srv, TargetURI(target))
            ok = int(srv.state.session) == 1
            log = []
            for hop in from_default[s][1:]:
                rep, _ = await tr.handle_request(bytes([DSC, hop]))
                log.append([f"10{hop:02x}", None if rep is None else bytes(rep).hex()])
                if rep is None or len(rep) < 2 or rep[0] != 0x50 or rep[1] != hop or int(srv.state.session) != hop:
                    ok = False
                    break
            w["reached"] = ok
            w["log"] = log[-4:]
            if not ok:
                continue
            back = bfs(s).get(1)
            w["back_path"] = back
            if back is not None:
                good = True
                for hop in back[1:]:
                    rep, _ = await tr.handle_request(bytes([DSC, hop]))
                    log.append([f"10{hop:02x}", None if rep is None else bytes(rep).hex()])
                    if rep is None or len(rep) < 2 or rep[0] != 0x50 or rep[1] != hop or int(srv.state.session) != hop:
                        good = False
                        break
                w["back"] = ("dsc-direct" if len(back) <= 2 else "dsc-path") if good else "dsc-refused"
                w["log"] = log[-4:]
            else:
                for sf in M[s].get(RESET) or []:
                    rep, _ = await tr.handle_request(bytes([RESET, sf]))
                    if rep is not None and len(rep) >= 2 and rep[0] == 0x51 and int(srv.state.session) == 1:
                        w["back"] = "ecu-reset"
                        break
        return walks

    def describe(server: Any) -> dict[str, Any]:
        rp = server.randomness_parameters
        return {
            "params_effective": {
                "mandatory_sessions": [int(x) for x in rp.mandatory_sessions],
                "optional_sessions": [int(x) for x in rp.optional_sessions],
                "mandatory_services": [int(x) for x in rp.mandatory_services],
                "optional_services": [int(x) for x in rp.optional_services],
                **{p: float(getattr(rp, p)) for p in PROBS},
            },
            "behavior_effective": {f: bool(getattr(server.behavior, f)) for f in BEHAVIOR_FLAGS},
            "seed_effective": repr(server.seed),
        }

    async def sibling(sib: dict[str, Any]) -> dict[str, Any]:
        """A further configuration (own seed, the list arguments name entries more than once) of which only the structural half of
        the statement is observed: the model after setup() and the walks through it."""
        o: dict[str, Any] = {"seed": sib["seed"], "args": sib["args"], "ctor": sib["ctor"], "pattern": sib["pattern"]}

        def make() -> Any:
            return construct(sib["seed"], sib["args"], sib["ctor"])

        try:
            srv = make()
        except Exception as e:
            o["construct_error"] = f"{type(e).__name__}: {str(e)[:300]}"
            return o
        o.update(describe(srv))
        try:
            await srv.setup()
        except Exception as e:
            o["setup_error"] = f"{type(e).__name__}: {str(e)[:300]}"
            return o
        canon, _ = dump_model(srv)
        o["model"] = canon
        o["supported_services_same"] = dump_model(type("X", (), {"services": srv.supported_services})())[0] == canon
        o["walks"] = await walk_model(canon, make, 0, srv)
        return o

    keep_alive: list[Any] = []

    async def main() -> None:
        if env.get("other"):
            out["stage"] = "other-ecu"
            out["other"] = await exercise_other(env["other"])
        out["stage"] = "construct"
        try:
            server = construct()
        except Exception as e:
            out["construct_error"] = f"{type(e).__name__}: {str(e)[:300]}"
            out["ok"] = True
            return
        out.update(describe(server))
        out["stage"] = "setup"
        try:
            await server.setup()
        except Exception as e:
            out["setup_error"] = f"{type(e).__name__}: {str(e)[:300]}"
            out["ok"] = True
            return
        canon, raw = dump_model(server)
        out["model"] = canon
        out["model_raw"] = raw
        out["supported_services_same"] = dump_model(type("X", (), {"services": server.supported_services})())[0] == canon

        # ---- transcript -----------------------------------------------------------------------
        out["stage"] = "history"
        history = spec.get("history") or []
        d = await drive(server, history, True)
        transcript, seeds, masked, max_gap = d["transcript"], d["seeds"], d["masked"], d["max_gap"]
        out["transcript"] = transcript
        out["seeds"] = seeds
        out["masked"] = masked
        out["max_gap"] = max_gap
        out["final_session"] = int(server.state.session)
        out["sessions"] = d["sessions"]  # (harness-side bookkeeping for the reach counters only; never compared)
        out["vstart"], out["vclock"] = d["vstart"], d["vclock"]
        if out.get("other") and not out["other"]["error"]:
            # how much of what the ECU under test answered had been answered by the other ECU in the same session before
            seen = {(ss, item) for ss, item in out["other"].pop("positive")}
            both = [(ss, item) for ss, item, (r, _) in zip(d["sessions"], history, transcript) if (ss, item) in seen and r[:2] not in ("7f", "no", "EX")]
            dtc_sessions = {ss for ss, item in seen if item.startswith("1902")}
            out["other"]["answered_by_both"] = len(both)
            out["other"]["dtc_read_in_session_read_by_other"] = sum(
                1 for ss, item, (r, _) in zip(d["sessions"], history, transcript) if item.startswith("1902") and r.startswith("5902") and ss in dtc_sessions)

        # ---- second life: the same object is shut down and started again ------------------------
        if spec.get("second_life"):
            out["stage"] = "second-life"
            # a tester that leaves the ECU in its default session before the ECU is shut down (nothing was asked: nothing to leave)
            closing = ["1001"] if history else []
            dc = await drive(server, closing, False)
            sl: dict[str, Any] = {"served_before": len(history) + len(closing), "closing": [x[0] for x in dc["transcript"]],
                                  "clean": all(x[0] == "5001" for x in dc["transcript"])}
            out["second_life"] = sl
            await server.teardown()
            try:
                await server.setup()
            except Exception as e:
                sl["setup_error"] = f"{type(e).__name__}: {str(e)[:300]}"
            else:
                sl["model"] = dump_model(server)[0]
                d2 = await drive(server, history, False)
                sl["transcript"] = d2["transcript"]
                sl["seeds"] = d2["seeds"]
                sl["max_gap"] = d2["max_gap"]

        # ---- walks ----------------------------------------------------------------------------
        if spec.get("walk"):
            out["stage"] = "walk"
            out["walks"] = await walk_model(canon, construct, 12)
            out["stage"] = "siblings"
            out["siblings"] = [await sibling(sib) for sib in spec.get("siblings") or []]
        out["stage"] = "done"
        out["ok"] = True

    try:
        asyncio.run(main())
    except BaseException as e:
        import traceback

        out["error"] = "".join(traceback.format_exception(e))[-3000:]
    faulthandler.cancel_dump_traceback_later()
    return finish()


# =================================================================================================
# parent: workload
# =================================================================================================
# Boundary-seed configurations, part of every tier: seed 0 (falsy; lower end of the documented range) as an int and as the
# string "0" the command line delivers, always taken through the CLI/config constructor path in several processes.
SEED0_CONFIGS = [1000, 1001]
# Focus configurations, part of every tier: ReadDTCInformation, SecurityAccess (with many levels) and the identifier services are
# mandatory and answer positively, and the histories put "requestSeed, [testerPresent,] request answered from stateful_rng" and
# "19 02 <mask>" patterns into every session (what a cache shared between servers or a dependence on the pending seed needs).
FOCUS_CONFIGS = [1100, 1101, 1102]
FOCUS_SERVICES = [0x10, 0x3E, 0x27, 0x19, 0x22, 0x2E, 0x31]


def shards(tier: str, seed: int) -> list[dict[str, Any]]:
    if tier == "quick":
        n, parts, jobs = 16, 4, 5
    else:
        n, parts, jobs = 304, 16, 2
    out = [{"configs": list(range(p, n, parts)), "jobs": jobs} for p in range(parts)]
    for k, i in enumerate(SEED0_CONFIGS + FOCUS_CONFIGS):  # one per shard, from the end (shard 0 also runs the seed-pair sanity child)
        out[-1 - (k % parts)]["configs"].append(i)
    return out


def required_reach(tier: str) -> dict[str, int]:
    q = tier == "quick"
    return {
        "env.PYTHONHASHSEED.varied": 8 if q else 100,
        "env.import-order.varied": 8 if q else 100,
        "env.constructor-path.varied": 6 if q else 80,
        "env.global-random.varied": 8 if q else 100,
        "env.wall-clock.varied": 6 if q else 80,
        "compare.model-pairs": 40 if q else 1200,
        "compare.transcript-pairs": 40 if q else 1200,
        "compare.replies": 3000 if q else 100000,
        "history.session-change-succeeded": 20 if q else 500,
        "history.positive-non-session-replies": 20 if q else 500,
        "security.seeds-masked": 5 if q else 100,
        # a fresh security seed is pending (only TesterPresent in between) when a request answered from stateful_rng arrives
        "security.seed-pending-then-stateful-request": 30 if q else 300,
        "security.seed-pending-then-rng-derived-positive-reply": 20 if q else 200,
        # another virtual ECU (other seed) was set up and asked the same history in the same interpreter before the ECU under test
        "env.other-ecu-in-same-process.varied": 16 if q else 200,
        "other-ecu.request-answered-positively-by-both-in-same-session": 100 if q else 1000,
        "other-ecu.dtc-read-in-session-where-other-ecu-read-dtc": 30 if q else 300,
        "history.dtc-read-answered": 20 if q else 200,
        "security.key-accepted": 1 if q else 20,
        # freshness of the exempt seeds: pairs of seeds (>= 2 bytes each) answered to the same request in two processes / to
        # successive requestSeed requests of one history; configurations with enough pairs for the all-equal verdict
        "security.fresh.seed-pairs-compared.across-processes": 200 if q else 3000,
        "security.fresh.seed-pairs-compared.within-one-history": 150 if q else 2000,
        "security.fresh.long-seed-pairs-compared.across-processes": 30 if q else 400,
        "security.fresh.long-seed-pairs-compared.within-one-history": 30 if q else 400,
        "security.fresh.configs-judged.across-processes": 4 if q else 40,
        "security.fresh.configs-judged.within-one-history": 4 if q else 40,
        "models.differ-for-different-seeds": 1,
        "walk.sessions-reached": 20 if q else 500,
        "walk.returned-to-default": 20 if q else 500,
        "mandatory.checked": 10 if q else 250,
        # seed 0 / "0" through RngVirtualECU(RngVirtualECUConfig(...))._server(): cli-path processes compared with the baseline
        "seed0.cli-path-processes-compared": 4,
        "seed0.configs-with-two-cli-processes": 2,
        # further configurations whose list arguments name entries more than once (judged like the configuration's own model)
        "repeats.models-judged": 60 if q else 900,
        "repeats.mandatory-session-named-again-after-another-one": 40 if q else 600,
        "repeats.repeated-mandatory-sessions-in-model": 100 if q else 1500,
        "repeats.sessions-reached": 300 if q else 5000,
        "repeats.sessions-returned-to-default": 300 if q else 5000,
        "repeats.through-cli-config-path": 15 if q else 200,
        # the same server object shut down and started again: second model / second transcript against the first life
        "restart.second-life-models-compared": 40 if q else 600,
        "restart.after-serving-requests": 20 if q else 300,
        "restart.without-serving-requests": 10 if q else 150,
        "restart.second-life-transcripts-compared": 15 if q else 250,
        "restart.second-life-replies-compared": 1500 if q else 25000,
        # the same history played at another pace (the clock moves between two requests, every idle period below the inactivity
        # limit): an answered request arrives in a non-default session more than the limit after the last answered one, the time in
        # between bridged only by requests whose positive response is suppressed (3E 80 keep-alives, 10 <session|80>)
        "env.request-pace.varied": 20 if q else 300,
        "pace.suppressed-run-outlasting-inactivity-limit-in-nondefault-session": 40 if q else 600,
        "pace.suppressed-run-outlasting-inactivity-limit-then-positive-reply": 30 if q else 400,
        "pace.suppressed-run-outlasting-inactivity-limit-then-session-read": 30 if q else 400,
    }


SEED_POOL: list[Any] = [0, 1, -1, 42, 2**31 - 1, 2**63 - 1, 2**64 + 3, "", "abc", "seed|1|2", "ß中", "0x10", "17"]


def gen_config(vseed: int, i: int) -> dict[str, Any]:
    """Configuration number i for VERIF_SEED vseed (independent of sharding)."""
    rng = random.Random(f"C16/{vseed}/cfg/{i}")
    base = rng.getrandbits(63)
    args: dict[str, Any] = {}
    behavior: dict[str, bool] = {}
    seed: Any = base
    label = "random"
    focus = False
    if i in SEED0_CONFIGS:
        if i == SEED0_CONFIGS[0]:
            label, seed = "seed-0/int/defaults", 0
        else:
            label, seed = "seed-0/string/p_session-0.5", "0"
            args = dict(p_session=0.5, p_identifier=0.5)
        return {"index": i, "label": label, "seed": seed, "args": args, "behavior": behavior, "history_len": 60,
                "history_seed": rng.getrandbits(48), "seed0": True}
    if i in FOCUS_CONFIGS:
        k = FOCUS_CONFIGS.index(i)
        if k == 0:
            label = "focus-dtc-security/all-positive"
            args = dict(mandatory_sessions=[1, 3], mandatory_services=FOCUS_SERVICES + [0x11, 0x14], p_session=0.5, p_sub_function=0.5,
                        p_identifier=1, p_correct_payload_format=1)
        elif k == 1:
            label, seed = "focus-dtc-security/half-positive/small-seed", rng.getrandbits(16)
            args = dict(mandatory_sessions=[1, 2, 3], mandatory_services=FOCUS_SERVICES + [0x2F], p_service=0.5, p_sub_function=1,
                        p_identifier=0.5, p_correct_payload_format=0.5)
        else:
            label, seed = "focus-dtc-security/string-seed", rng.choice(["abc", "seed|1|2", "ß中", "ecu-7"])
            args = dict(mandatory_services=FOCUS_SERVICES, p_session=0.5, p_sub_function=0.2, p_identifier=0.5, p_correct_payload_format=1)
        return {"index": i, "label": label, "seed": seed, "args": args, "behavior": behavior, "history_len": [200, 200, 120][k],
                "history_seed": rng.getrandbits(48), "focus": True}
    if i == 0:
        label = "defaults/seed-a"
    elif i == 1:
        label, seed = "defaults/seed-b", base + 1
    elif i == 2:
        label, args = "all-probabilities-0", {p: 0 for p in PROBS}
    elif i == 3:
        label = "everything-full-p1"
        args = {p: 1 for p in PROBS}
        args.update(mandatory_sessions=ALL_SESSIONS, optional_sessions=ALL_SESSIONS, mandatory_services=ALL_SERVICES, optional_services=ALL_SERVICES)
    elif i == 4:
        label = "all-lists-empty"
        args = dict(mandatory_sessions=[], optional_sessions=[], mandatory_services=[], optional_services=[])
    elif i == 5:
        label, args = "all-probabilities-0.5", {p: 0.5 for p in PROBS}
    elif i == 6:
        label, args = "all-sessions-mandatory-p_session-0", dict(mandatory_sessions=ALL_SESSIONS, optional_sessions=[], p_session=0, p_identifier=0.5)
    elif i == 7:
        label, args = "dsc-not-mandatory", dict(mandatory_services=[], optional_services=ALL_SERVICES, p_session=0.5, p_service=0.5)
    else:
        k = rng.random()
        if k < 0.55:
            seed = base if rng.random() < 0.6 else rng.getrandbits(rng.choice([8, 16, 31, 64, 80]))
        else:
            seed = rng.choice(SEED_POOL)
        for p in PROBS:
            v = rng.choice(["default", "default", 0, 0.05, 0.5, 1])
            if p == "p_session" and rng.random() < 0.5:
                v = rng.choice([0.5, 1])  # more than one session: state to carry
            if p in ("p_identifier", "p_correct_payload_format") and rng.random() < 0.4:
                v = rng.choice([0.5, 1])  # positive data replies
            if v != "default":
                args[p] = v
        for name, full in (("mandatory_sessions", ALL_SESSIONS), ("optional_sessions", ALL_SESSIONS)):
            v = rng.choice(["default", "default", "empty", "full", "subset"])
            if v == "empty":
                args[name] = []
            elif v == "full":
                args[name] = list(full)
            elif v == "subset":
                args[name] = rng.sample(full, rng.randint(1, 12 if name.startswith("mand") else 60))
        v = rng.choice(["default", "default", "default", "empty", "full", "subset", "subset+dsc"])
        if v == "empty":
            args["mandatory_services"] = []
        elif v == "full":
            args["mandatory_services"] = list(ALL_SERVICES)
        elif v.startswith("subset"):
            sub = rng.sample(ALL_SERVICES, rng.randint(1, 8))
            if v.endswith("dsc") and DSC not in sub:
                sub.insert(rng.randrange(len(sub) + 1), DSC)
            args["mandatory_services"] = sub
        v = rng.choice(["default", "default", "empty", "full", "subset"])
        if v == "empty":
            args["optional_services"] = []
        elif v == "full":
            args["optional_services"] = list(ALL_SERVICES)
        elif v == "subset":
            args["optional_services"] = rng.sample(ALL_SERVICES, rng.randint(1, 30))
        if rng.random() < 0.15:
            for f in rng.sample(BEHAVIOR_FLAGS, rng.randint(1, 3)):
                behavior[f] = False
        # a quarter of the random draws is turned into a focus configuration (own generator: the other draws stay what they were)
        frng = random.Random(f"C16/{vseed}/focus/{i}")
        if frng.random() < 0.25:
            focus = True
            label = "random/focus-dtc-security"
            ms = list(args.get("mandatory_services", [DSC]))
            for sid in FOCUS_SERVICES:
                if sid not in ms:
                    ms.insert(frng.randrange(len(ms) + 1), sid)
            args["mandatory_services"] = ms
            if args.get("p_sub_function", 0.05) < 0.2:
                args["p_sub_function"] = frng.choice([0.2, 0.5, 1])
            if args.get("p_identifier", 0.005) < 0.5:
                args["p_identifier"] = frng.choice([0.5, 1])
            if args.get("p_correct_payload_format", 0.1) < 0.5:
                args["p_correct_payload_format"] = frng.choice([0.5, 1])
    return {
        "focus": focus,
        "index": i, "label": label, "seed": seed, "args": args, "behavior": behavior,
        "history_len": rng.choice([30, 60, 120, 200, 300]) if i >= 8 else [120, 120, 60, 300, 30, 200, 120, 120][i],
        "history_seed": rng.getrandbits(48),
    }


# ---- list arguments that name an entry more than once ------------------------------------------------------------------------
# RandomnessParameters and the command line accept `--mandatory-sessions 2 3 2`; the statement quantifies over all lists.  Per
# configuration N_SIBLINGS further configurations ("siblings": own seeds, the configuration's probabilities and lists, but the
# lists with repeated entries in several patterns) are built in the walk process and judged like the configuration's own model:
# mandatory parts present, every offered session reachable from the default session and able to return.
N_SIBLINGS = 6
REPEAT_PATTERNS = ["a-b-a", "whole-list-twice", "list-then-reversed", "random-repeats", "adjacent-pairs", "default-session-repeated"]


def with_repeats(rng: random.Random, pattern: str, L: list[int]) -> list[int]:
    """L (distinct entries, at least two) with entries named more than once."""
    if pattern == "a-b-a":
        return [L[0], L[1], L[0]] + L[2:]
    if pattern == "whole-list-twice":
        return L + L
    if pattern == "list-then-reversed":
        return L + L[::-1]
    if pattern == "random-repeats":
        out = L + [rng.choice(L) for _ in range(rng.randint(1, len(L) + 1))]
        rng.shuffle(out)
        return out
    if pattern == "adjacent-pairs":
        return [x for x in L for _ in range(2)]
    if pattern == "default-session-repeated":
        return [1, L[0], 1] + L[1:] + [L[0]]
    raise ValueError(pattern)


def interleaved_repeat(lst: list[int], ignore: int | None = None) -> bool:
    """an entry is named again after a different entry (other than `ignore`) was named in between"""
    for i, x in enumerate(lst):
        if x == ignore:
            continue
        for k in range(i + 2, len(lst)):
            if lst[k] == x and any(y not in (x, ignore) for y in lst[i + 1:k]):
                return True
    return False


def gen_siblings(vseed: int, cfg: dict[str, Any]) -> list[dict[str, Any]]:
    rng = random.Random(f"C16/{vseed}/repeats/{cfg['index']}")
    out = []
    own = [x for x in dict.fromkeys(cfg["args"].get("mandatory_sessions", [1])) if x != 1]
    for j in range(N_SIBLINGS):
        args = dict(cfg["args"])
        pattern = REPEAT_PATTERNS[j % len(REPEAT_PATTERNS)]
        # the non-default sessions to be named: the configuration's own ones (at most 10 of them), filled up to at least two
        L = rng.sample(own, min(len(own), rng.randint(2, 10)))
        while len(L) < 2 or (len(L) < 6 and rng.random() < 0.4):
            x = rng.choice([2, 3, 4, rng.randrange(2, 0x7F), rng.randrange(0x40, 0x7F)])
            if x not in L:
                L.append(x)
        args["mandatory_sessions"] = with_repeats(rng, pattern, L)
        k = rng.random()
        if k < 0.35:
            args["p_session"] = 0  # none of them is discovered randomly: all are attached afterwards
        elif k < 0.6:
            args["p_session"] = 0.02
        elif k < 0.7:
            args["p_session"] = 0.5
        elif args.get("p_session", 0.05) > 0.05:
            args["p_session"] = 0.05  # (keeps the siblings of the configurations with more than a hundred sessions small)
        if rng.random() < 0.4:
            o = list(dict.fromkeys(args.get("optional_sessions", [2, 3, 4, 0x40, 0x41])))[:40]
            if o:
                args["optional_sessions"] = with_repeats(rng, "random-repeats", o) if len(o) > 1 else o * 2
        if rng.random() < 0.4:
            m = list(dict.fromkeys(args.get("mandatory_services", [DSC])))
            if m:  # an empty list stays empty (DiagnosticSessionControl is never added here)
                args["mandatory_services"] = with_repeats(rng, rng.choice(["whole-list-twice", "random-repeats"]), m) if len(m) > 1 else m * 2
        if rng.random() < 0.3 and args.get("optional_services"):
            o = list(dict.fromkeys(args["optional_services"]))
            args["optional_services"] = o + rng.sample(o, rng.randint(1, len(o)))
        seed: Any = [j + rng.randrange(100), rng.getrandbits(63), rng.choice(["abc", "ecu-7", "ß中", "17"]) + str(j)][j % 3] if j % 4 else (
            cfg["seed"] + j + 1 if isinstance(cfg["seed"], int) else f"{cfg['seed']}/{j}")
        out.append({"seed": seed, "args": args, "pattern": pattern, "ctor": "cli" if isinstance(seed, int) and j % 2 else "direct"})
    return out


def make_envs(tier: str, cfg: dict[str, Any], rng: random.Random) -> list[dict[str, Any]]:
    numeric = isinstance(cfg["seed"], int) or bool(cfg.get("seed0"))
    cli = "cli" if numeric else "direct"
    g1 = {"seed": rng.getrandbits(32), "calls": rng.randint(1, 50)}
    g2 = {"seed": rng.getrandbits(32), "calls": rng.randint(1, 50)}
    # "other": another virtual ECU with this (different) seed and the same arguments is constructed, set up and asked the same
    # history in the same interpreter before the ECU under test is constructed; the baseline process only ever holds one ECU
    s = cfg["seed"]
    if isinstance(s, int):
        other = {"seed": s + 1000003}
    elif numeric:
        other = {"seed": str(int(s) + 7)}
    else:
        other = {"seed": s + "~other"}
    # "pace": the same history played at another pace - before every request the clock of the process moves by an idle period
    # (one fixed period per process, or periods drawn per request), every single one below MAX_PACE_GAP; the baseline process and
    # the second one play the history without idle time.  (Own generator: the other dimensions stay what they were.)
    prng = random.Random(f"C16/pace-env/{cfg['index']}/{cfg.get('history_seed')}")
    pace_fixed = {"kind": "fixed", "gap": prng.choice([2.6, 3.5, 4.0, 5.0, MAX_PACE_GAP])}
    pace_random = {"kind": "random", "lo": prng.choice([0.0, 1.0, 2.0]), "hi": prng.choice([4.0, 5.0, MAX_PACE_GAP]), "seed": prng.getrandbits(32)}
    envs = [
        # the baseline pins the global generator too, so that a dependence on it is reproducible there and gets its own name;
        # the second environment leaves it unseeded, as a user's process would
        {"hashseed": "0", "imp": "server", "ctor": "direct", "grand": {"seed": 12345, "calls": 0}, "clock": 0, "other": None, "pace": None},
        {"hashseed": "1", "imp": "tree", "ctor": "direct", "grand": None, "clock": 0, "other": other, "pace": None},
        {"hashseed": "4242", "imp": "server", "ctor": cli, "grand": g1, "clock": 0, "other": other, "pace": pace_fixed},
        {"hashseed": "random", "imp": "tree", "ctor": cli, "grand": g2, "clock": 1e9, "other": None, "pace": pace_random},
    ]
    # "second_life": after the history the same server object is left in the default session (10 01), shut down (teardown()) and
    # started again (setup()), and asked the same history again; judged within the process (first life vs second life), so it is
    # no dimension of the cross-process comparison.  (The walk process restarts its ECU without having asked it anything.)
    envs[0]["second_life"] = envs[1]["second_life"] = True  # (the two environments that are run even when time is short)
    if cfg.get("seed0"):
        # the boundary seed once more as an int through the config object, in a process that differs in nothing else
        envs.append(dict(envs[0], ctor="cli-int"))
    if tier != "quick":
        envs.append({"hashseed": str(rng.randrange(2, 2**32)), "imp": "server", "ctor": "direct", "grand": dict(g2, calls=g2["calls"] + 13), "clock": -1.7e9, "other": None,
                     "pace": {"kind": "random", "lo": 0.0, "hi": MAX_PACE_GAP, "seed": prng.getrandbits(32)}})
        envs.append({"hashseed": "random", "imp": "tree", "ctor": "direct", "grand": None, "clock": 3e9, "other": other, "second_life": True, "pace": None})
    return envs


def _valid_requests(rng: random.Random, n: int) -> list[str]:
    from vf import gen_uds

    out: list[str] = []
    tries = 0
    while len(out) < n and tries < 20 * n + 20:
        tries += 1
        try:
            b = gen_uds.any_valid_request(rng).expect
        except Exception:
            continue
        if b and len(b) <= 200:
            out.append(bytes(b).hex())
    return out


def gen_history(rng: random.Random, model: dict[str, Any], n: int, focus: bool = False, krng: random.Random | None = None) -> list[str]:
    """Requests steered by the observed model so that state is carried; tokens key:/badkey: are filled in by the child.

    krng: between two steps taken in a non-default session, with probability 0.2, a tester that idles is put in: a run of 2..7 requests
    whose positive response is suppressed (the TesterPresent keep-alive 3E 80; sometimes 10 <current session | 0x80>), then requests whose
    answer shows the session (22 F1 86, a service the model offers here but not in the default session, a data identifier read).
    These requests come from krng alone and are not counted in n: the history without them is the one rng alone yields.

    focus: a third of the steps additionally emits "27 <odd level offered> [3E] <request answered from stateful_rng> [key]"
    or "19 02 <mask>" in the current session, when the model offers the services there."""
    M = {int(s): {int(k): v for k, v in d.items()} for s, d in model.items()}
    cur = 1
    out: list[str] = []
    did_pool = [0xF186, 0xF190, 0x0000, 0xFFFF] + [rng.randrange(0x10000) for _ in range(6)]

    def did() -> int:
        return rng.choice(did_pool) if rng.random() < 0.7 else rng.randrange(0x10000)

    def payload(lo: int = 0, hi: int = 8) -> bytes:
        return rng.randbytes(rng.randint(lo, hi))

    def targeted(sid: int) -> str:
        if sid == 0x22:
            return f"22{did():04x}"
        if sid == 0x2E:
            return f"2e{did():04x}" + payload(1, 6).hex()
        if sid == 0x2F:
            return f"2f{did():04x}{rng.choice([0, 1, 2, 3]):02x}" + payload(0, 4).hex()
        if sid == 0x31:
            return f"31{rng.choice([1, 2, 3]):02x}{did():04x}" + payload(0, 4).hex()
        if sid == 0x14:
            return "14" + rng.choice(["ffffff", "000000", rng.randbytes(3).hex()])
        if sid == 0x19:
            return f"1902{rng.choice([0, 1, 8, 0xFF, rng.randrange(256)]):02x}"
        if sid == 0x3E:
            return rng.choice(["3e00", "3e80"])
        sfs = M.get(cur, {}).get(sid)
        if sfs:
            return f"{sid:02x}{rng.choice(sfs) | rng.choice([0, 0, 0x80]):02x}" + payload(0, 4).hex()
        return f"{sid:02x}" + payload(0, 6).hex()

    extra = 0
    while len(out) - extra < n:
        svc = M.get(cur, {})
        if krng is not None and cur != 1 and krng.random() < 0.2:
            run = ["3e80"] * krng.randint(2, 7)
            if cur in (svc.get(DSC) or []) and krng.random() < 0.25:
                run[krng.randrange(len(run))] = f"10{cur | 0x80:02x}"
            run.append("22f186")
            here_only = [sid for sid in svc if sid not in M.get(1, {})]
            j = krng.random()
            if j < 0.35 and here_only:
                sid = krng.choice(here_only)
                sfs = svc.get(sid)
                run.append(f"{sid:02x}" + (f"{krng.choice(sfs):02x}" if sfs else "") + krng.randbytes(krng.randint(0, 3)).hex())
            elif j < 0.7:
                run.append(f"22{krng.choice(did_pool):04x}")
            out.extend(run)
            extra += len(run)
        if focus and rng.random() < 0.34:
            levels = [x for x in (svc.get(SA) or []) if x % 2 == 1]
            stateful = [x for x in STATEFUL_SIDS if x in svc] + ([RESET] if 4 in (svc.get(RESET) or []) else [])
            j = rng.random()
            if j < 0.6 and levels and stateful:
                sf = rng.choice(levels)
                out.append(f"27{sf:02x}")
                if rng.random() < 0.4:
                    out.append(rng.choice(["3e00", "3e80", "3e00"]))
                sid = rng.choice(stateful)
                if sid == RESET:
                    out.append("1104")
                    cur = 1
                else:
                    out.append(targeted(sid))
                if rng.random() < 0.5:
                    out.append(f"key:{sf + 1:02x}")
                continue
            if j < 0.9 and 0x19 in svc:
                out.append(targeted(0x19))
                continue
        k = rng.random()
        if k < 0.14:
            offered = [x for x in (svc.get(DSC) or []) if x != cur]
            if offered:
                nxt = rng.choice(offered)
                sup = 0x80 if rng.random() < 0.12 else 0
                out.append(f"10{nxt | sup:02x}")
                if nxt in M:
                    cur = nxt
            else:
                out.append(f"10{rng.randrange(0x80):02x}")
        elif k < 0.18:
            out.append("1001")
            if 1 in (svc.get(DSC) or []):
                cur = 1
        elif k < 0.21:
            x = rng.randrange(0x100)
            out.append(f"10{x:02x}" + (payload(0, 2).hex() if rng.random() < 0.2 else ""))
            if (x & 0x7F) in (svc.get(DSC) or []) and (x & 0x7F) in M and out[-1] == f"10{x:02x}":
                cur = x & 0x7F
        elif k < 0.25:
            sfs = svc.get(RESET) or []
            if sfs and rng.random() < 0.7:
                out.append(f"11{rng.choice(sfs):02x}")
                cur = 1
            else:
                out.append(f"11{rng.randrange(0x80):02x}")
        elif k < 0.37:
            sfs = [x for x in (svc.get(SA) or []) if x % 2 == 1]
            if sfs:
                sf = rng.choice(sfs)
                out.append(f"27{sf:02x}")
                j = rng.random()
                if j < 0.45:
                    out.append(f"key:{sf + 1:02x}")
                elif j < 0.6:
                    out.append(f"badkey:{sf + 1:02x}")
                elif j < 0.7:
                    out.append(f"27{sf + 1:02x}" + payload(0, 3).hex())
                elif j < 0.8:
                    out.extend(["3e00", f"key:{sf + 1:02x}"])
                elif j < 0.9:
                    out.extend([targeted(rng.choice(list(svc) or [0x22])), f"key:{sf + 1:02x}"])
                else:
                    out.append(f"key:{(sf + 3) & 0x7E:02x}")
            else:
                out.append(f"27{rng.randrange(0x100):02x}" + payload(0, 3).hex())
        elif k < 0.62:
            sids = list(svc)
            out.append(targeted(rng.choice(sids)) if sids else targeted(rng.choice([0x22, 0x2E, 0x31, 0x3E])))
        elif k < 0.72:
            out.append(targeted(rng.choice([0x22, 0x22, 0x2E, 0x2F, 0x31, 0x14, 0x19, 0x3E, 0x11, 0x28, 0x85])))
        elif k < 0.82:
            out.extend(_valid_requests(rng, 1))
        elif k < 0.9:
            out.append(rng.randbytes(rng.randint(1, 12)).hex())
        elif k < 0.96:
            sid = rng.randrange(0x100)
            for ln in range(4):
                out.append(f"{sid:02x}" + rng.randbytes(ln).hex())
        elif out:
            out.append(rng.choice(out[-20:]))
    return out[: max(n, 1) + extra]


# =================================================================================================
# parent: running children, comparing
# =================================================================================================
class HarnessProblem(Exception):
    pass


class Runner:
    def __init__(self, scratch: Path, timeout: float):
        self.scratch = scratch
        self.timeout = timeout
        self.n = 0
        self.cpu = 0.0

    def child(self, cfg: dict[str, Any], env: dict[str, Any], history: list[str], walk: bool, tag: str,
              siblings: list[dict[str, Any]] | None = None, timeout: float | None = None) -> dict[str, Any]:
        """One interpreter process.  Returns the child's report or {'timeout': ...} / raises HarnessProblem."""
        timeout = timeout or self.timeout
        self.n += 1
        stem = f"c{cfg['index']}-{tag}-{self.n}-{time.monotonic_ns() % 10**9}"
        spec_file = self.scratch / f"{stem}.spec.json"
        out_file = self.scratch / f"{stem}.out.json"
        spec = {"seed": cfg["seed"], "args": cfg["args"], "behavior": cfg["behavior"], "env": env, "history": history, "walk": walk,
                "second_life": bool(walk or env.get("second_life")), "siblings": siblings or [], "hang_after": timeout - 8,
                "pace_after_exception": PACE_AFTER_EXCEPTION}
        spec_file.write_text(json.dumps(spec))
        penv = dict(os.environ)
        penv["PYTHONHASHSEED"] = env["hashseed"]
        penv["PYTHONDONTWRITEBYTECODE"] = "1"
        penv.pop("PYTHONPATH", None)
        t0 = time.monotonic()
        try:
            cp = subprocess.run([PY, "-m", "vf.checks.c16", "--child", str(spec_file), str(out_file)], cwd=ROOT, env=penv,
                                timeout=timeout, capture_output=True, text=True)
        except subprocess.TimeoutExpired as e:
            return {"timeout": True, "stderr": (e.stderr or b"")[-3000:].decode("utf-8", "replace") if isinstance(e.stderr, bytes) else str(e.stderr)[-3000:]}
        finally:
            self.cpu += time.monotonic() - t0
            spec_file.unlink(missing_ok=True)
        if not out_file.exists():
            if "Timeout (" in cp.stderr:  # faulthandler watchdog inside the child
                return {"timeout": True, "stderr": cp.stderr[-3000:]}
            raise HarnessProblem(f"child rc={cp.returncode} wrote no report; stderr tail: {cp.stderr[-1500:]}")
        res = json.loads(out_file.read_text())
        out_file.unlink(missing_ok=True)
        if res.get("error"):
            raise HarnessProblem(f"child failed at stage {res.get('stage')}: {res['error'][-1500:]}")
        return res


def env_brief(env: dict[str, Any]) -> dict[str, Any]:
    return {"PYTHONHASHSEED": env["hashseed"], "import-order": env["imp"], "constructor-path": env["ctor"], "global-random": env["grand"], "wall-clock": env["clock"],
            "other-ecu-in-same-process": env.get("other"), "request-pace": env.get("pace")}


def diff_dims(a: dict[str, Any], b: dict[str, Any]) -> list[str]:
    return [d for d in DIMS if a.get(ENV_FIELD[d]) != b.get(ENV_FIELD[d])]


def first_transcript_diff(ta: list[list[Any]], tb: list[list[Any]]) -> tuple[int | None, int, int]:
    """(index of the first genuine difference, replies compared, seed-induced differences skipped)"""
    compared = skipped = 0
    for i in range(min(len(ta), len(tb))):
        (ra, da), (rb, db) = ta[i], tb[i]
        if da != db:
            # the seed-dependence descriptors differ: the two processes handed out different fresh seeds (other value, other
            # length, possibly empty) and this sendKey-shaped request meets a different pending-seed state.  Exempt by the
            # statement; nothing but sendKey replies depends on that state.
            skipped += 1
            continue
        compared += 1
        if ra != rb:
            return i, compared, skipped
    if len(ta) != len(tb):
        return min(len(ta), len(tb)), compared, skipped
    return None, compared, skipped


def observation(res: dict[str, Any]) -> dict[str, Any]:
    """What is compared between two processes."""
    if "construct_error" in res:
        return {"outcome": "construct-raises:" + res["construct_error"].split(":")[0]}
    if "setup_error" in res:
        return {"outcome": "setup-raises:" + res["setup_error"].split(":")[0]}
    return {"outcome": "ok", "model": json.dumps(res["model"], sort_keys=True), "transcript": res["transcript"]}


def compare(oa: dict[str, Any], ob: dict[str, Any]) -> tuple[str | None, dict[str, Any]]:
    """kind of the first difference (outcome | model | transcript) and details"""
    if oa["outcome"] != ob["outcome"]:
        return "outcome", {"a": oa["outcome"], "b": ob["outcome"]}
    if oa["outcome"] != "ok":
        return None, {}
    if oa["model"] != ob["model"]:
        ma, mb = json.loads(oa["model"]), json.loads(ob["model"])
        detail: dict[str, Any] = {"sessions_a": sorted(map(int, ma)), "sessions_b": sorted(map(int, mb))}
        for s in sorted(set(ma) & set(mb), key=int):
            if ma[s] != mb[s]:
                detail["first_differing_session"] = int(s)
                detail["services_a"] = ma[s] if len(json.dumps(ma[s])) < 1500 else sorted(map(int, ma[s]))
                detail["services_b"] = mb[s] if len(json.dumps(mb[s])) < 1500 else sorted(map(int, mb[s]))
                break
        return "model", detail
    idx, compared, skipped = first_transcript_diff(oa["transcript"], ob["transcript"])
    if idx is not None:
        ra = oa["transcript"][idx] if idx < len(oa["transcript"]) else None
        rb = ob["transcript"][idx] if idx < len(ob["transcript"]) else None
        return "transcript", {"index": idx, "reply_a": ra, "reply_b": rb}
    return None, {"compared": compared, "skipped": skipped}


STATEFUL_HEX = tuple(f"{x:02x}" for x in STATEFUL_SIDS) + ("11",)


def seed_pending_before(history: list[str], replies: list[str], idx: int) -> bool:
    """Is request #idx (not itself a SecurityAccess or TesterPresent request) the first one after a handed-out security seed,
    with nothing but TesterPresent in between?"""
    if idx >= len(history) or sid_of(history, idx) in ("27", "3e"):
        return False
    j = idx - 1
    while j >= 0 and sid_of(history, j) == "3e" and replies[j] in ("7e00", "none"):
        j -= 1
    return j >= 0 and replies[j].startswith("67") and replies[j].endswith("**")


def sid_of(history: list[str], idx: int) -> str:
    if idx >= len(history):
        return "none"
    item = history[idx]
    if item.startswith(("key:", "badkey:")):
        return "27"
    return item[:2]


# ---- freshness of security-access seeds ("..., which are deliberately fresh") ------------------------------------------------
# A pair = two handed-out seeds of at least FRESH_MIN_BYTES bytes each, either answered to the same request of the same history
# in two processes ("across-processes") or answered to two successive requestSeed requests of one history in one process
# ("within-one-history").  A fresh seed is newly drawn every time, so an equal pair is a coincidence: for seeds of >= 2 bytes
# at most 2^-16 if the bytes are drawn uniformly (2^-8 if only one byte of a seed carried any entropy).
#   not-fresh/all-equal: a configuration that shows at least FRESH_MIN_PAIRS pairs of one kind, ALL of them equal
#                        (false alarm <= 2^-128 per configuration and kind, <= 2^-64 under the one-byte assumption);
#   not-fresh/repeated:  any equal pair of seeds of at least FRESH_LONG_BYTES bytes (<= 2^-64 per pair; a thorough run sees
#                        about 10^5 pairs).
FRESH_MIN_BYTES = 2
FRESH_MIN_PAIRS = 8
FRESH_LONG_BYTES = 8
FRESH_KINDS = ("across-processes", "within-one-history")


def seed_answers(res: dict[str, Any]) -> list[tuple[int, str]]:
    """(index of the request in the history, seed as hex) for every requestSeed answer of one process."""
    pos = [i for i, x in enumerate(res.get("transcript") or []) if x[0].startswith("67") and x[0].endswith("**")]
    seeds = list(res.get("seeds") or [])
    if len(pos) != len(seeds):
        raise HarnessProblem(f"child reported {len(seeds)} security seeds but masked {len(pos)} replies")
    return list(zip(pos, seeds))


def freshness(procs: list[dict[str, Any]]) -> dict[str, dict[str, Any]]:
    """Pairs of security seeds (see above) over the processes that ran one history for one configuration."""
    out: dict[str, dict[str, Any]] = {k: {"pairs": 0, "equal": 0, "long_pairs": 0, "long_equal": 0, "examples": [], "procs": None} for k in FRESH_KINDS}
    answers = [seed_answers(r) for r in procs]

    def add(kind: str, where: Any, sa: str, sb: str, procs_: tuple[int, int]) -> None:
        if min(len(sa), len(sb)) < 2 * FRESH_MIN_BYTES:
            return
        o = out[kind]
        o["pairs"] += 1
        long = min(len(sa), len(sb)) >= 2 * FRESH_LONG_BYTES
        o["long_pairs"] += long
        if sa == sb:
            o["equal"] += 1
            o["long_equal"] += long
            if o["procs"] is None or (long and not o.get("procs_long")):
                o["procs"] = list(procs_)
                o["procs_long"] = bool(long)
            if len(o["examples"]) < 4 or (long and len(o["examples"]) < 6):
                o["examples"].append({"requests": where, "processes": list(procs_), "seed": sa})

    for a in range(len(answers)):
        da = dict(answers[a])
        for j in range(len(answers[a]) - 1):
            (i1, s1), (i2, s2) = answers[a][j], answers[a][j + 1]
            add("within-one-history", [i1, i2], s1, s2, (a, a))
        for b in range(a + 1, len(answers)):
            for i, sb in answers[b]:
                if i in da:
                    add("across-processes", [i], da[i], sb, (a, b))
    return out


def judge_freshness(fr: dict[str, dict[str, Any]], min_pairs: int = FRESH_MIN_PAIRS) -> list[tuple[str, str, str, dict[str, Any]]]:
    """(kind, key, what, detail) for every freshness verdict the pairs support."""
    found = []
    for kind in FRESH_KINDS:
        o = fr[kind]
        detail = {k: o[k] for k in ("pairs", "equal", "long_pairs", "long_equal", "examples")}
        if o["pairs"] >= min_pairs and o["equal"] == o["pairs"]:
            found.append((kind, f"security-seed/not-fresh/all-equal/{kind}",
                          f"all {o['pairs']} pairs of security-access seeds (>= {FRESH_MIN_BYTES} bytes each) compared {kind.replace('-', ' ')} are equal: the seeds are not fresh", detail))
        elif o["long_equal"]:
            found.append((kind, f"security-seed/not-fresh/repeated/{kind}",
                          f"{o['long_equal']} of {o['long_pairs']} pairs of security-access seeds of >= {FRESH_LONG_BYTES} bytes compared {kind.replace('-', ' ')} are equal: a handed-out seed was handed out again", detail))
    return found


def run_config(rn: Runner, tier: str, vseed: int, cfg: dict[str, Any], deadline_left: Any) -> dict[str, Any]:
    """Everything for one configuration; runs in a worker thread, returns plain data (no ctx access here)."""
    rep: dict[str, Any] = {"cfg": cfg, "violations": [], "reach": {}, "cases": [], "timeouts": [], "notes": [], "sample": None, "model": None}
    reach = rep["reach"]

    def bump(name: str, n: int = 1) -> None:
        reach[name] = reach.get(name, 0) + n

    def viol(key: str, what: str, witness: dict[str, Any]) -> None:
        rep["violations"].append((key, what, witness))

    rng = random.Random(f"C16/{vseed}/env/{cfg['index']}")
    envs = make_envs(tier, cfg, rng)
    base_w = {"seed": cfg["seed"], "args": cfg["args"], "behavior": cfg["behavior"], "label": cfg["label"]}

    def run_child(env: dict[str, Any], history: list[str], walk: bool, tag: str, siblings: list[dict[str, Any]] | None = None) -> dict[str, Any] | None:
        res = rn.child(cfg, env, history, walk, tag, siblings)
        if res.get("timeout"):
            res2 = rn.child(cfg, env, history, walk, tag + "r", siblings)
            if res2.get("timeout"):
                # a process starved by a loaded machine is not a hang: once more with four times the time (a hang stays one)
                res3 = rn.child(cfg, env, history, walk, tag + "s", siblings, timeout=min(4 * rn.timeout, 240.0))
                if not res3.get("timeout"):
                    rep["notes"].append(f"config {cfg['index']} {tag}: child timed out twice, completed with four times the time (machine too loaded)")
                    bump("child.slow-not-hung")
                    res2 = res3
            if res2.get("timeout"):
                tb = res2.get("stderr", "")
                in_server = "gallia/services/uds/server.py" in tb.split("Timeout (")[-1][:1500]
                if in_server:
                    viol("server/hang", "the virtual ECU itself hangs (reproduced in two processes, stack inside services/uds/server.py)",
                         {**base_w, "kind": "hang", "env_a": env, "env_b": env, "history": history, "walk": walk, "traceback": tb[-1500:]})
                else:
                    rep["timeouts"].append(f"config {cfg['index']} {tag}: child timed out twice outside the server code: {tb[-200:]}")
                return None
            rep["notes"].append(f"config {cfg['index']} {tag}: one child timed out, the retry completed")
            bump("child.timeout-then-ok")
            res = res2  # (judged for its gaps like a first attempt)
        if res.get("max_gap", 0) > MAX_GAP:
            res2 = rn.child(cfg, env, history, walk, tag + "g", siblings)
            if res2.get("timeout") or res2.get("max_gap", 0) > MAX_GAP:
                rep["timeouts"].append(f"config {cfg['index']} {tag}: gap between requests above {MAX_GAP}s twice (machine too loaded)")
                return None
            return res2
        return res

    def second_life(res: dict[str, Any], env: dict[str, Any], history: list[str], tag: str) -> None:
        judge_second_life(res, env, history, base_w, viol, bump)

    # ---- phase 1: walk child in the baseline environment (no history): model, mandatory parts, reachability
    w = run_child(envs[0], [], True, "walk", gen_siblings(vseed, cfg))
    if w is None:
        return rep
    if sorted(w.get("enum_services", [])) != sorted(ALL_SERVICES):
        raise HarnessProblem(f"UDSIsoServices changed: {w.get('enum_services')}")
    ow = observation(w)
    if ow["outcome"] != "ok":
        bump("config.rejected." + ow["outcome"].split(":")[0])
        rep["notes"].append(f"config {cfg['index']} ({cfg['label']}): {ow['outcome']} {w.get('setup_error') or w.get('construct_error')}")
        model: dict[str, Any] = {}
    else:
        model = w["model"]
        rep["model"] = ow["model"]
        judge_model(cfg, w, viol, bump, base_w)
        judge_siblings(cfg, w, viol, bump)
    second_life(w, envs[0], [], "walk")
    # ---- phase 2: the same history in every environment
    history = (gen_history(random.Random(f"C16/{vseed}/hist/{cfg['index']}/{cfg['history_seed']}"), model, cfg["history_len"], bool(cfg.get("focus")),
                           random.Random(f"C16/{vseed}/keep-alive/{cfg['index']}/{cfg['history_seed']}"))
               if model else ["1001", "3e00"])
    results: list[dict[str, Any] | None] = []
    for k, env in enumerate(envs):
        if deadline_left() <= 0 and k >= 2:
            rep["notes"].append(f"config {cfg['index']}: out of time after {k} environments")
            break
        results.append(run_child(env, history, False, f"e{k}"))
    if not results or results[0] is None:
        return rep
    r0 = results[0]
    o0 = observation(r0)
    # same environment, another process: walk child vs. E0
    kind, detail = compare({**ow, "transcript": []}, {**o0, "transcript": []})
    bump("compare.same-environment-pairs")
    if kind is not None:
        viol(f"{kind}/differs-across/fresh-process", f"{kind} differs between two processes started in the same environment",
             {**base_w, "kind": kind, "env_a": envs[0], "env_b": envs[0], "history": [], "detail": detail})
    if o0["outcome"] == "ok":
        t = [x[0] for x in r0["transcript"]]
        distinct = len(set(t))
        sc = sum(1 for i, x in enumerate(t) if x.startswith("50") and sid_of(history, i) == "10")
        bump("history.session-change-succeeded", sc)
        bump("history.session-change-to-nondefault", sum(1 for x in t if x.startswith("50") and not x.startswith("5001")))
        bump("history.suppressed-replies", sum(1 for x in t if x == "none"))
        bump("history.positive-non-session-replies", sum(1 for x in t if not x.startswith(("7f", "50", "none", "EXC"))))
        bump("history.exceptions", sum(1 for x in t if x.startswith("EXC")))
        bump("history.requests", len(t))
        bump("security.seeds-masked", r0.get("masked", 0))
        bump("security.key-accepted", sum(1 for i, x in enumerate(t) if x.startswith("67") and not x.endswith("**")))
        bump("security.key-rejected", sum(1 for x in t if x == "7f2735"))
        bump("history.dtc-read-answered", sum(1 for i, x in enumerate(t) if x.startswith("5902") and sid_of(history, i) == "19"))
        for i in range(len(t)):
            if seed_pending_before(history, t, i) and sid_of(history, i) in STATEFUL_HEX:
                bump("security.seed-pending-then-stateful-request")
                if not t[i].startswith(("7f", "none", "EXC")):
                    bump("security.seed-pending-then-rng-derived-positive-reply")
                    bump("security.seed-pending-then-positive-reply.sid-" + sid_of(history, i))
        rep["sample"] = {"label": cfg["label"], "seed": cfg["seed"], "args": {k: (v if not isinstance(v, list) or len(v) < 10 else f"<{len(v)} items>") for k, v in cfg["args"].items()},
                         "behavior": cfg["behavior"], "sessions": len(r0["model"]), "history_len": len(history), "history_head": history[:6],
                         "replies_head": t[:6], "distinct_replies": distinct, "environments": len([r for r in results if r])}
    else:
        distinct = 0
    seeds_seen = [tuple(r.get("seeds", [])) for r in results if r]
    if len(set(seeds_seen)) > 1:
        bump("security.seeds-fresh-across-processes")
    # ---- the exempt part is exempt because it is fresh: seeds must not repeat (see FRESH_* above)
    okp = [k for k, r in enumerate(results) if r and "transcript" in r]
    fr = freshness([results[k] for k in okp])  # type: ignore[misc]
    for kind in FRESH_KINDS:
        o = fr[kind]
        bump(f"security.fresh.seed-pairs-compared.{kind}", o["pairs"])
        bump(f"security.fresh.seed-pairs-differ.{kind}", o["pairs"] - o["equal"])
        bump(f"security.fresh.long-seed-pairs-compared.{kind}", o["long_pairs"])
        if o["pairs"] >= FRESH_MIN_PAIRS:
            bump(f"security.fresh.configs-judged.{kind}")
    for kind, key, what, detail in judge_freshness(fr):
        pa, pb = (okp[x] for x in (fr[kind]["procs"] or [0, min(1, len(okp) - 1)]))
        viol(key, what, {**base_w, "kind": "seed-freshness", "mode": kind, "env_a": envs[pa], "env_b": envs[pb], "history": history, "detail": detail,
                         "processes": len(okp), "env_brief_a": env_brief(envs[pa]), "env_brief_b": env_brief(envs[pb])})
    seed0_cli = 0
    attrib: dict[str, Any] = {}
    for k, rk in enumerate(results):
        if rk is None:
            continue
        env = envs[k]
        rep["cases"].append(((repr(cfg["seed"]), json.dumps(cfg["args"], sort_keys=True), json.dumps(cfg["behavior"], sort_keys=True), hash_hist(history), json.dumps(env, sort_keys=True)), distinct >= 3))
        second_life(rk, env, history, f"e{k}")
        if k == 0:
            continue
        ok_ = observation(rk)
        dims = diff_dims(envs[0], env)
        # did the environment really differ?
        if "PYTHONHASHSEED" in dims and rk["hash_probe"] != r0["hash_probe"]:
            bump("env.PYTHONHASHSEED.varied")
        if "import-order" in dims and rk.get("import_sig") != r0.get("import_sig"):
            bump("env.import-order.varied")
        if "constructor-path" in dims:
            bump("env.constructor-path.varied")
            if cfg.get("seed0") and str(env["ctor"]).startswith("cli") and "construct_error" not in rk and rk.get("seed_effective") is not None:
                bump("seed0.cli-path-processes-compared")
                seed0_cli += 1
                if seed0_cli == 2:
                    bump("seed0.configs-with-two-cli-processes")
        if "global-random" in dims:
            bump("env.global-random.varied")
        if "other-ecu-in-same-process" in dims:
            oi = rk.get("other") or r0.get("other") or {}
            if oi and not oi.get("error") and oi.get("requests", 0) >= len(history):
                bump("env.other-ecu-in-same-process.varied")
                bump("other-ecu.requests-to-other-ecu", oi["requests"])
                bump("other-ecu.request-answered-positively-by-both-in-same-session", oi.get("answered_by_both", 0))
                bump("other-ecu.dtc-read-in-session-where-other-ecu-read-dtc", oi.get("dtc_read_in_session_read_by_other", 0))
            elif oi.get("error"):
                bump("other-ecu.setup-failed")
        if "request-pace" in dims and o0["outcome"] == "ok" and "vclock" in rk:
            pr = pace_reach(r0, rk)
            if pr["moved"] > 0:
                bump("env.request-pace.varied")
            for name, n_ in pr.items():
                if name != "moved":
                    bump("pace." + name, int(n_))
        if "wall-clock" in dims and abs((rk["server_clock_minus_real"] - r0["server_clock_minus_real"]) - (env["clock"] - envs[0]["clock"])) < 5:
            bump("env.wall-clock.varied")
        kind, detail = compare(o0, ok_)
        bump("compare.model-pairs")
        if o0["outcome"] == "ok" and ok_["outcome"] == "ok" and o0["model"] == ok_["model"]:
            bump("compare.transcript-pairs")
            bump("compare.replies", detail.get("compared", detail.get("index", 0)))
            bump("compare.seed-induced-skips", detail.get("skipped", 0))
            if json.dumps(r0["model_raw"]) != json.dumps(rk["model_raw"]):
                bump("info.model-order-differs")
        if kind is None:
            continue
        # ---- attribute the difference to single dimensions (one more child per differing dimension + a control)
        blamed: list[str] = []
        if "ctrl" not in attrib:  # (the control process is the same for every environment of the configuration: run once)
            attrib["ctrl"] = run_child(envs[0], history, False, f"a{k}c")
        ctrl = attrib["ctrl"]
        if ctrl is not None and compare(o0, observation(ctrl))[0] is not None:
            blamed = ["fresh-process"]
        else:
            # the pace of the requests is tried first and, when it alone reproduces the difference, the other dimensions are not tried
            # (a process that differs from the baseline in nothing but its pace answers differently: nothing more to attribute)
            for d in sorted(dims, key=lambda x: x != "request-pace"):
                if blamed == ["request-pace"]:
                    break
                e1 = dict(envs[0])
                e1[ENV_FIELD[d]] = env.get(ENV_FIELD[d])
                r1 = run_child(e1, history, False, f"a{k}{d[:2]}")
                if r1 is not None and compare(o0, observation(r1))[0] is not None:
                    blamed.append(d)
            if not blamed:
                blamed = ["combination"]
        wit = {**base_w, "kind": kind, "env_a": envs[0], "env_b": env, "history": history, "detail": detail,
               "params_effective_a": _brief_params(r0), "params_effective_b": _brief_params(rk)}
        if kind == "transcript":
            idx = detail["index"]
            wit["request"] = history[idx] if idx < len(history) else None
        for d in blamed:
            suffix = f"/sid-{sid_of(history, detail['index'])}" if kind == "transcript" else ""
            if kind == "transcript" and seed_pending_before(history, [x[0] for x in r0["transcript"]], detail["index"]):
                # differs exactly where a fresh security seed is pending: the exempt value may be leaking into this answer
                # (then the single-dimension attribution above is a matter of chance)
                suffix = "/pending-security-seed" + suffix
            name = {"outcome": "setup-outcome"}.get(kind, kind)
            viol(f"{name}/differs-across/{d}{suffix}",
                 f"{name} differs between processes that differ in {d}" + (f" (first differing reply at request #{detail['index']})" if kind == "transcript" else ""),
                 {**wit, "blamed": d, "env_brief_a": env_brief(envs[0]), "env_brief_b": env_brief(env)})
    return rep


def pace_reach(r0: dict[str, Any], rk: dict[str, Any]) -> dict[str, float]:
    """What the idle periods of the paced process rk met, judged on the replies and sessions of the baseline process r0 (no idle time)."""
    vc, last = rk["vclock"], rk["vstart"]
    t0, sess = [x[0] for x in r0["transcript"]], r0["sessions"]
    o = {"moved": 0.0, "requests-after-an-idle-period": 0, "suppressed-requests-in-nondefault-session": 0,
         "suppressed-run-outlasting-inactivity-limit-in-nondefault-session": 0, "suppressed-run-outlasting-inactivity-limit-then-positive-reply": 0,
         "suppressed-run-outlasting-inactivity-limit-then-session-read": 0}
    if len(vc) != len(t0) or len(sess) != len(t0):
        raise HarnessProblem(f"paced child reported {len(vc)} clock readings for {len(t0)} replies")
    prev = last
    for i, reply in enumerate(t0):
        gap = vc[i] - prev
        prev = vc[i]
        if gap > MAX_PACE_GAP + 1e-6:
            raise HarnessProblem(f"idle period of {gap} s before request #{i}")
        o["requests-after-an-idle-period"] += gap > 0
        if reply == "none":
            # nothing was answered, the session (as the baseline process shows it before the next request) stays what it was
            o["suppressed-requests-in-nondefault-session"] += sess[i] != 1
            continue
        if vc[i] - last > INACTIVITY_LIMIT and sess[i] != 1:
            # more than the inactivity limit since the last answered request, bridged by requests without an answer only
            o["suppressed-run-outlasting-inactivity-limit-in-nondefault-session"] += 1
            if not reply.startswith(("7f", "EXC")):
                o["suppressed-run-outlasting-inactivity-limit-then-positive-reply"] += 1
            if reply.startswith("62f186") and reply != "62f18601":
                o["suppressed-run-outlasting-inactivity-limit-then-session-read"] += 1
        last = vc[i]
    o["moved"] = vc[-1] - rk["vstart"] if vc else 0.0
    return o


def _brief_params(res: dict[str, Any]) -> Any:
    p = res.get("params_effective")
    if not p:
        return None
    return {k: (v if not isinstance(v, list) or len(v) <= 12 else f"<{len(v)} items, head {v[:6]}>") for k, v in p.items()}


def hash_hist(history: list[str]) -> str:
    import hashlib

    return hashlib.blake2b("|".join(history).encode(), digest_size=8).hexdigest()


def judge_model(cfg: dict[str, Any], w: dict[str, Any], viol: Any, bump: Any, base_w: dict[str, Any]) -> None:
    """Mandatory parts and reachability, from the model the child dumped and the walks it drove."""
    M = {int(s): {int(k): v for k, v in d.items()} for s, d in w["model"].items()}
    pe = w["params_effective"]
    wit0 = {**base_w, "kind": "walk", "env_a": None, "env_b": None}
    bump("mandatory.checked")
    if not w.get("supported_services_same", True):
        viol("model/supported_services-differs-from-services", "supported_services is not the dumped model", wit0)
    if 1 not in M:
        viol("model/default-session-missing", "session 1 is not part of the model", {**wit0, "sessions": sorted(M)})
    missing_s = [s for s in pe["mandatory_sessions"] if s not in M]
    if missing_s:
        viol("model/mandatory-session-missing", f"mandatory session(s) missing from the model, e.g. {missing_s[0]:#x}", {**wit0, "missing": missing_s, "sessions": sorted(M)})
    for s in sorted(M):
        miss = [x for x in pe["mandatory_services"] if x not in M[s]]
        if miss:
            viol("model/mandatory-service-missing", f"mandatory service {miss[0]:#x} missing in session {s:#x}", {**wit0, "session": s, "missing": miss, "services": sorted(M[s])})
            break
    for s in sorted(M):
        for sid, sfs in M[s].items():
            if sid == DSC and sfs is not None:
                ghost = [x for x in sfs if x not in M]
                if ghost:
                    viol("model/transition-to-session-without-model", f"session {s:#x} offers a transition to {ghost[0]:#x}, which has no entry in the model", {**wit0, "session": s, "targets": ghost})
                    break
    dsc_mandatory = DSC in pe["mandatory_services"]
    suffix = "" if dsc_mandatory else "/dsc-not-mandatory"
    default_behavior = all(w["behavior_effective"].values())
    walks = {x["session"]: x for x in w.get("walks", [])}
    bump("walk.configs")
    if not dsc_mandatory and not DSC_NOT_MANDATORY_IS_VIOLATION:
        inner_viol = viol

        def viol(key: str, what: str, witness: dict[str, Any]) -> None:  # noqa: F811
            if key != NODSC_KEY:
                inner_viol(key, what, witness)

    for s in sorted(M):
        x = walks.get(s)
        if x is None:
            raise HarnessProblem(f"no walk record for session {s}")
        if x["path"] is None:
            bump("walk.unreachable-in-model" + suffix)
            viol("model/session-unreachable-from-default" if dsc_mandatory else NODSC_KEY,
                 f"session {s:#x} is part of the model but no chain of offered DiagnosticSessionControl sub-functions leads there from session 1",
                 {**wit0, "session": s, "sessions": sorted(M), "dsc_of_default": M.get(1, {}).get(DSC)})
            continue
        if not default_behavior:
            bump("walk.skipped-nondefault-behavior")
            continue
        if not x["reached"]:
            viol("walk/offered-transition-refused", f"the model offers the path {x['path']} but driving it with 10 xx requests fails", {**wit0, "session": s, "path": x["path"], "log": x.get("log")})
            continue
        bump("walk.sessions-reached")
        if x.get("fresh_server"):
            bump("walk.on-fresh-server")
        if len(x["path"]) > 2:
            bump("walk.multi-hop")
        if x["back"] in ("dsc-direct", "dsc-path", "ecu-reset"):
            bump("walk.returned-to-default")
            bump("walk.return." + x["back"])
        elif x["back"] == "dsc-refused":
            viol("walk/return-path-refused", f"the model offers the way back {x['back_path']} from session {s:#x} but driving it fails", {**wit0, "session": s, "back_path": x["back_path"], "log": x.get("log")})
        else:
            bump("walk.no-return" + suffix)
            viol("model/session-cannot-return-to-default" if dsc_mandatory else NODSC_KEY,
                 f"session {s:#x} can be entered but offers neither a DiagnosticSessionControl path back to session 1 nor a working ECUReset",
                 {**wit0, "session": s, "path": x["path"], "services": sorted(M[s]), "dsc": M[s].get(DSC)})


def judge_second_life(res: dict[str, Any], env: dict[str, Any], history: list[str], base_w: dict[str, Any], viol: Any, bump: Any) -> None:
    """The same server object, shut down and started again (setup -> [requests] -> teardown -> setup), is an ECU started with the
    same seed and the same arguments at a different time: identical model, and - when it was left in the default session - the
    identical answers to the same history as in its first life."""
    sl = res.get("second_life")
    if not sl or "model" not in res:
        return
    wit = {**base_w, "kind": "restart", "env_a": env, "env_b": env, "history": history, "env_brief_a": env_brief(env), "env_brief_b": env_brief(env),
           "served_before_restart": sl["served_before"], "closing_replies": sl["closing"]}
    bump("restart.same-object-started-again")
    if sl["served_before"]:
        bump("restart.after-serving-requests")
        bump("restart.requests-served-in-first-life", sl["served_before"])
    else:
        bump("restart.without-serving-requests")
    if "setup_error" in sl:
        viol("setup-outcome/differs-across/restart-of-same-object", "the second setup() of a server object raises although the first one did not",
             {**wit, "detail": {"second_setup": sl["setup_error"]}})
        return
    a = {"outcome": "ok", "model": json.dumps(res["model"], sort_keys=True), "transcript": res.get("transcript") or []}
    b = {"outcome": "ok", "model": json.dumps(sl["model"], sort_keys=True), "transcript": sl["transcript"]}
    bump("restart.second-life-models-compared")
    if a["model"] != b["model"]:
        _, detail = compare(a, b)
        viol("model/differs-across/restart-of-same-object", "the model differs between the first and the second setup() of the same server object (same seed, same arguments)",
             {**wit, "detail": detail})
        return
    if not history:
        return
    if not sl["clean"]:
        bump("restart.not-left-in-default-session")  # the state carried over is not the statement's business
        return
    if sl.get("max_gap", 0) > MAX_GAP:
        bump("restart.second-life-discarded-gap")
        return
    kind, detail = compare(a, b)
    bump("restart.second-life-transcripts-compared")
    bump("restart.second-life-replies-compared", detail.get("compared", detail.get("index", 0)))
    if kind is not None:
        idx = detail["index"]
        viol(f"transcript/differs-across/restart-of-same-object/sid-{sid_of(history, idx)}",
             f"after teardown() and a second setup() the same server object answers request #{idx} of the same history differently than in its first life",
             {**wit, "detail": detail, "request": history[idx] if idx < len(history) else None})


def judge_siblings(cfg: dict[str, Any], w: dict[str, Any], viol: Any, bump: Any) -> None:
    """The sibling configurations (list arguments with repeated entries) of the walk process, judged like the configuration itself."""
    for sib in w.get("siblings") or []:
        bump("repeats.configurations")
        bump("repeats.pattern." + sib["pattern"])
        if "construct_error" in sib or "setup_error" in sib:
            # a list with repeated entries that is refused is no model to judge; (all of them refused: the reach requirement fails)
            bump("repeats.refused")
            print(f"config {cfg['index']}: sibling {sib['seed']!r} {sib['pattern']}: {sib.get('construct_error') or sib.get('setup_error')}", file=sys.stderr)
            continue
        pe = sib["params_effective"]
        named = pe["mandatory_sessions"]
        if len(named) == len(set(named)):
            raise HarnessProblem(f"sibling without a repeated mandatory session: asked for {sib['args'].get('mandatory_sessions')}, effective {named}")
        before: dict[str, int] = {}
        found: list[tuple[str, str, dict[str, Any]]] = []

        def sbump(name: str, n: int = 1) -> None:
            before[name] = before.get(name, 0) + n

        base = {"seed": sib["seed"], "args": sib["args"], "behavior": cfg["behavior"], "label": f"{cfg['label']}/repeated-list-entries/{sib['pattern']}",
                "constructor_path": sib["ctor"], "sibling_of_config": cfg["index"]}
        judge_model({"index": cfg["index"]}, sib, lambda k, what, wit: found.append((k, what, wit)), sbump, base)
        bump("repeats.models-judged")
        if interleaved_repeat(named, ignore=1):
            bump("repeats.mandatory-session-named-again-after-another-one")
        if any(len(v) != len(set(v)) for k, v in pe.items() if isinstance(v, list) and k != "mandatory_sessions"):
            bump("repeats.other-list-with-repeats")
        if sib["ctor"] == "cli":
            bump("repeats.through-cli-config-path")
        M = {int(s) for s in sib["model"]}
        bump("repeats.repeated-mandatory-sessions-in-model", len({x for x in named if named.count(x) > 1 and x in M}))
        bump("repeats.sessions-reached", before.get("walk.sessions-reached", 0))
        bump("repeats.sessions-returned-to-default", before.get("walk.returned-to-default", 0))
        bump("repeats.multi-hop-walks", before.get("walk.multi-hop", 0))
        for k, what, wit in found:
            viol(k, what + " [configuration with repeated list entries]", wit)


def run(ctx: Any, params: dict[str, Any]) -> None:
    scratch = ctx.mkscratch()
    rn = Runner(scratch, float(os.environ.get("VERIF_C16_CHILD_TIMEOUT", 60.0 if ctx.tier == "quick" else 120.0)))
    cfgs = [gen_config(ctx.seed, i) for i in params["configs"]]
    problems: list[str] = []
    models: dict[int, str | None] = {}
    with ThreadPoolExecutor(max_workers=int(params.get("jobs", 4))) as ex:
        futs = {ex.submit(run_config, rn, ctx.tier, ctx.seed, c, ctx.time_left): c for c in cfgs}
        for f in as_completed(futs):
            c = futs[f]
            try:
                rep = f.result()
            except HarnessProblem as e:
                problems.append(f"config {c['index']}: {e}")
                continue
            for ident, nontrivial in rep["cases"]:
                ctx.case(ident, nontrivial)
            for name, n in rep["reach"].items():
                ctx.reach(name, n)
            for key, what, witness in rep["violations"]:
                ctx.violation(key, what, {**witness, "key": key, "config_index": c["index"]})
            if rep["sample"]:
                ctx.sample(rep["sample"])
            if rep["model"]:
                ctx.trace(rep["model"])
            models[c["index"]] = rep["model"]
            problems.extend(rep["timeouts"])
            for n in rep["notes"]:
                ctx.reach("notes")
                print(n, file=sys.stderr)
    # sanity: the seed matters (configurations 0 and 1 differ in the seed only; shard 0 owns both in every tier layout? no:
    # compare whatever pair of default configurations this shard saw, else ask for the missing one's model directly)
    if 0 in models or 1 in models:
        other = 1 if 0 in models else 0
        if other not in models:
            c = gen_config(ctx.seed, other)
            res = rn.child(c, make_envs("quick", c, random.Random(0))[0], [], False, "pair")
            models[other] = None if res.get("timeout") or "model" not in res else json.dumps(res["model"], sort_keys=True)
        if models.get(0) and models.get(1):
            ctx.reach("models.seed-pairs-compared")
            if models[0] != models[1]:
                ctx.reach("models.differ-for-different-seeds")
    ctx.reach("children.run", rn.n)
    if problems:
        raise RuntimeError("harness problem(s), no verdict about the code: " + " | ".join(problems[:4]))


def replay(ctx: Any, witness: dict[str, Any]) -> None:
    scratch = ctx.mkscratch()
    rn = Runner(scratch, 120.0)
    cfg = {"index": witness.get("config_index", 0), "label": witness.get("label", "replay"), "seed": witness["seed"], "args": witness["args"], "behavior": witness.get("behavior") or {}}
    key = witness.get("key", "replay/differs")
    base_env = {"hashseed": "0", "imp": "server", "ctor": "direct", "grand": {"seed": 12345, "calls": 0}, "clock": 0}
    if witness.get("kind") == "walk":
        w = rn.child(cfg, base_env, [], True, "walk")
        if w.get("timeout"):
            raise RuntimeError("replay child timed out")
        found: list[tuple[str, str, dict[str, Any]]] = []
        if "model" in w:
            judge_model(cfg, w, lambda k, what, wit: found.append((k, what, wit)), lambda *a: None, {"seed": cfg["seed"], "args": cfg["args"], "behavior": cfg["behavior"], "label": cfg["label"]})
        for k, what, wit in found:
            ctx.violation(k, what, {**wit, "key": k})
        return
    ea, eb = witness["env_a"], witness["env_b"]
    hist = witness.get("history") or []
    if witness.get("kind") == "restart":
        r = rn.child(cfg, ea, hist, False, "r")
        if r.get("timeout"):
            raise RuntimeError("replay child timed out")
        ctx.case(("replay", key))
        judge_second_life(r, ea, hist, {"seed": cfg["seed"], "args": cfg["args"], "behavior": cfg["behavior"], "label": cfg["label"]},
                          lambda k, what, wit: ctx.violation(k, what + " (again)", {**wit, "key": k}), lambda *a: None)
        return
    if witness.get("kind") == "seed-freshness":
        # the two environments of the witness, the second one repeated until the pairs suffice for the same verdict
        mode = witness.get("mode")
        procs: list[dict[str, Any]] = []
        verdicts: list[tuple[str, str, str, dict[str, Any]]] = []
        for k, env in enumerate([ea, eb, eb, eb, eb, eb]):
            r = rn.child(cfg, env, hist, False, f"f{k}")
            if r.get("timeout"):
                raise RuntimeError("replay child timed out")
            if "transcript" not in r:
                raise RuntimeError("replay child did not get as far as the history")
            procs.append(r)
            fr = freshness(procs)
            verdicts = [x for x in judge_freshness(fr) if x[0] == mode]
            if len(procs) >= 2 and (verdicts or fr[mode]["pairs"] >= FRESH_MIN_PAIRS):
                break
        ctx.case(("replay", key))
        for kind, k2, what, detail in verdicts:
            ctx.violation(k2, what + " (again)", {**witness, "key": k2, "detail_now": detail})
        return
    ra = rn.child(cfg, ea, hist, False, "a")
    rb = rn.child(cfg, eb, hist, False, "b")
    if ra.get("timeout") or rb.get("timeout"):
        if witness.get("kind") == "hang":
            ctx.violation(key, "hang reproduced", witness)
            return
        raise RuntimeError("replay child timed out")
    kind, detail = compare(observation(ra), observation(rb))
    ctx.case(("replay", key))
    if kind is not None:
        ctx.violation(key, f"{kind} differs again between the two environments of the witness", {**witness, "detail_now": detail})


if __name__ == "__main__":
    if len(sys.argv) == 4 and sys.argv[1] == "--child":
        sys.exit(child_main(sys.argv[2], sys.argv[3]))
    print("usage: python -m vf.checks.c16 --child SPEC OUT", file=sys.stderr)
    sys.exit(2)
