"""Virtual-time asyncio loop.

A SelectorEventLoop whose selector never blocks: it polls the real file descriptors with timeout 0 and, if nothing is
ready, advances loop.time() by the timeout the loop asked for.  A 2 s acknowledgement timeout or 120 pending polls
therefore cost microseconds, and timing verdicts are in logical (virtual) seconds, independent of machine load.

If the loop asks to wait without a timeout while nothing is readable, no callback can ever run again: that is a
deterministic "blocks forever" verdict (Deadlock), not a wall-clock guess.
"""

from __future__ import annotations

import asyncio
import logging
from typing import Any, Coroutine


class Deadlock(Exception):
    """nothing scheduled and nothing readable: the awaited operation can never complete"""


class Unbounded(Exception):
    """the awaited operation is still running after `horizon` virtual seconds (bounded-progress verdict in logical time)"""


class Spinning(Exception):
    """the code under test used more than `cpu_limit` seconds of CPU time inside one run() - in practice a loop without a
    suspension point (e.g. re-reading an ended stream), which no timeout of the caller can interrupt"""


class VirtualTimeLoop(asyncio.SelectorEventLoop):
    def __init__(self, horizon: float | None = None) -> None:
        super().__init__()
        self._vt = 0.0
        self.horizon = horizon
        self.slept = 0
        real_select = self._selector.select

        def select(timeout: float | None = None) -> Any:
            events = real_select(0)
            if events:
                return events
            if timeout is None:
                raise Deadlock()
            if timeout > 0:
                self._vt += timeout
                self.slept += 1
                if self.horizon is not None and self._vt > self.horizon:
                    raise Unbounded()
            return events

        self._selector.select = select  # type: ignore[method-assign]

    def time(self) -> float:
        return self._vt


def run(coro: Coroutine[Any, Any, Any], debug: bool = False, horizon: float | None = None, cpu_limit: float | None = None) -> Any:
    """Run `coro` to completion in a fresh virtual-time loop. Raises Deadlock if it can never complete, Unbounded if it is
    still running after `horizon` virtual seconds (when a horizon is given), Spinning if it burns more than `cpu_limit` seconds of
    this process' CPU time (ITIMER_VIRTUAL: user time of the process, independent of machine load; main thread only)."""
    import signal
    import threading

    loop = VirtualTimeLoop(horizon)
    armed = cpu_limit is not None and threading.current_thread() is threading.main_thread()
    old_handler = None
    fired = [0]
    if armed:
        def on_timer(signum: int, frame: Any) -> None:
            fired[0] += 1
            raise Spinning()

        old_handler = signal.signal(signal.SIGVTALRM, on_timer)
        # repeating: code that catches Exception around the spinning operation (the code under test, or a case that records the
        # outcome of each step) swallows the first one and would spin on unguarded; the verdict stands in any case (below)
        signal.setitimer(signal.ITIMER_VIRTUAL, cpu_limit, 0.5)
    try:
        asyncio.set_event_loop(loop)
        res = loop.run_until_complete(coro)
        if fired[0]:
            raise Spinning()
        return res
    finally:
        if armed:
            signal.setitimer(signal.ITIMER_VIRTUAL, 0)
            signal.signal(signal.SIGVTALRM, old_handler if old_handler is not None else signal.SIG_DFL)
        try:
            # cancel leftovers without waiting on them in case of deadlock
            for t in asyncio.all_tasks(loop):
                t.cancel()
            try:
                loop.run_until_complete(asyncio.sleep(0))
                loop.run_until_complete(loop.shutdown_asyncgens())
            except BaseException:
                pass
        finally:
            asyncio.set_event_loop(None)
            loop.close()


def quiet_logging() -> None:
    """The monitors observe API results, not log output: switch gallia's (very chatty) logging off."""
    logging.disable(logging.CRITICAL)
