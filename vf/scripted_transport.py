"""A BaseTransport driven by an event script; logs every write/read/reconnect with virtual time and calling task.

Events (one per read() call unless noted):
   ("reply", bytes)   the read returns these bytes (after `delay` virtual seconds, if given as third element)
   ("T",)             the read times out: sleeps `timeout`, raises TimeoutError
   ("Z",)             silence until the next write: every read times out; the event is consumed by the next write()
   ("C",)             the read raises ConnectionResetError
   ("E",)             the read returns b"" (end of stream)
   ("W",)             consumed by write(): the write raises BrokenPipeError
After the script is exhausted every read times out.

reconnect() honours the BaseTransport contract literally: it returns a NEW transport object (sharing the script, its position and
the log) and leaves the old object closed; a write or read through the obsolete object is logged as "stale-use" and raises
ConnectionError, as a closed real transport does.
"""

from __future__ import annotations

import asyncio
from typing import Any

from gallia.transports.base import BaseTransport, TargetURI


class ScriptedTransport(BaseTransport, scheme="scripted"):
    def __init__(self, script: list[tuple[Any, ...]]) -> None:
        super().__init__(TargetURI("tcp-lines://127.0.0.1:1"))
        self._st: dict[str, Any] = {"script": list(script), "pos": 0, "log": [], "reconnects": 0}
        self.obsolete = False

    # script, position, log and reconnect counter are shared by all generations of the connection
    @property
    def script(self) -> list[tuple[Any, ...]]:
        return self._st["script"]  # type: ignore[no-any-return]

    @property
    def log(self) -> list[tuple[Any, ...]]:
        return self._st["log"]  # type: ignore[no-any-return]

    @property
    def pos(self) -> int:
        return self._st["pos"]  # type: ignore[no-any-return]

    @pos.setter
    def pos(self, v: int) -> None:
        self._st["pos"] = v

    @property
    def reconnects(self) -> int:
        return self._st["reconnects"]  # type: ignore[no-any-return]

    @reconnects.setter
    def reconnects(self, v: int) -> None:
        self._st["reconnects"] = v

    def _stale(self, op: str) -> None:
        if self.obsolete:
            self.log.append(("stale-use", self._now(), self._who(), op))
            raise ConnectionError(f"{op} on a transport that was replaced by reconnect()")

    def _who(self) -> str:
        t = asyncio.current_task()
        return t.get_name() if t is not None else "?"

    def _now(self) -> float:
        return asyncio.get_running_loop().time()

    def peek(self) -> tuple[Any, ...] | None:
        return self.script[self.pos] if self.pos < len(self.script) else None

    @classmethod
    async def connect(cls, target: str | TargetURI, timeout: float | None = None) -> "ScriptedTransport":
        raise NotImplementedError

    async def close(self) -> None:
        self.log.append(("close", self._now(), self._who()))

    async def reconnect(self, timeout: float | None = None) -> "ScriptedTransport":
        self.reconnects += 1
        self.log.append(("reconnect", self._now(), self._who()))
        new = ScriptedTransport([])
        new._st = self._st
        self.obsolete = True
        return new

    async def write(self, data: bytes, timeout: float | None = None, tags: list[str] | None = None) -> int:
        self._stale("write")
        ev = self.peek()
        if ev is not None and ev[0] == "Z":
            self.pos += 1
            ev = self.peek()
        if ev is not None and ev[0] == "W":
            self.pos += 1
            self.log.append(("write", self._now(), self._who(), bytes(data), "BrokenPipeError", self.pos - 1))
            raise BrokenPipeError("scripted write failure")
        self.log.append(("write", self._now(), self._who(), bytes(data), None, None))
        return len(data)

    async def read(self, timeout: float | None = None, tags: list[str] | None = None) -> bytes:
        self._stale("read")
        ev = self.peek()
        idx = self.pos
        if ev is None or ev[0] in ("T", "Z", "W"):
            if ev is not None and ev[0] == "T":
                self.pos += 1
            if timeout is None:
                await asyncio.get_running_loop().create_future()  # would block forever
            await asyncio.sleep(timeout or 0)
            self.log.append(("read", self._now(), self._who(), timeout, "TimeoutError", idx if ev else None))
            raise TimeoutError("scripted timeout")
        self.pos += 1
        if ev[0] == "C":
            self.log.append(("read", self._now(), self._who(), timeout, "ConnectionResetError", idx))
            raise ConnectionResetError("scripted connection loss")
        if ev[0] == "E":
            self.log.append(("read", self._now(), self._who(), timeout, b"", idx))
            return b""
        assert ev[0] == "reply"
        if len(ev) > 2 and ev[2]:
            delay = ev[2]
            if timeout is not None and delay > timeout:
                # too late for this read: the reply stays in the script with the remaining delay
                self.pos -= 1
                self.script[self.pos] = ("reply", ev[1], delay - timeout)
                await asyncio.sleep(timeout)
                self.log.append(("read", self._now(), self._who(), timeout, "TimeoutError", None))
                raise TimeoutError("scripted timeout (late reply)")
            await asyncio.sleep(delay)
        self.log.append(("read", self._now(), self._who(), timeout, bytes(ev[1]), idx))
        return bytes(ev[1])
